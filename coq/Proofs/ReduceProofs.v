From Coq Require Import Arith List Lia Bool Permutation ZArith.
From FastorV Require Import Base.Scalar Base.BigSum Base.Tiling Model.Reduce.
Import ListNotations.

Section Proofs.
  Variable A : Type.
  Variable op : A -> A -> A.
  Hypothesis op_assoc : forall a b c, op a (op b c) = op (op a b) c.
  Hypothesis op_comm : forall a b, op a b = op b a.

  Lemma fold_op_l l x y : fold_left op l (op x y) = op (fold_left op l x) y.
  Proof.
    revert x. induction l as [|a l IH]; intros x; simpl; [reflexivity|].
    rewrite <- IH. f_equal. rewrite <- !op_assoc. f_equal. apply op_comm.
  Qed.

  Lemma op_fold x l y : op x (fold_left op l y) = fold_left op (y :: l) x.
  Proof. simpl. rewrite (op_comm x y), fold_op_l. apply op_comm. Qed.

  Lemma fold_perm l l' x : Permutation l l' -> fold_left op l x = fold_left op l' x.
  Proof.
    intros P. revert x. induction P as [|a l l' P IH|a b l|l l' l'' P1 IH1 P2 IH2]; intros x; simpl.
    - reflexivity.
    - apply IH.
    - f_equal. rewrite <- !op_assoc. f_equal. apply op_comm.
    - rewrite IH1. apply IH2.
  Qed.

  Lemma fold_zip (a b : nat -> A) ls x y :
    fold_left op (map (fun l => op (a l) (b l)) ls) (op x y) =
    op (fold_left op (map a ls) x) (fold_left op (map b ls) y).
  Proof.
    revert x y. induction ls as [|l ls IH]; intros x y; simpl; [reflexivity|].
    rewrite <- IH. f_equal.
    rewrite <- !op_assoc. f_equal. rewrite !op_assoc. rewrite (op_comm y (a l)). reflexivity.
  Qed.

  Lemma hfold_zip W (a b : nat -> A) : hfold op W (fun l => op (a l) (b l)) = op (hfold op W a) (hfold op W b).
  Proof. unfold hfold. apply fold_zip. Qed.

  Lemma map_seq_shift (s st k : nat) : map (fun l => s + l) (seq st k) = seq (s + st) k.
  Proof. revert st. induction k as [|k IH]; intros st; simpl; [reflexivity|]. f_equal. rewrite IH. f_equal. lia. Qed.

  Lemma hfold_shift W (f : nat -> A) s : 0 < W ->
    hfold op W (fun l => f (s + l)) = fold_left op (map f (seq (s + 1) (W - 1))) (f s).
  Proof.
    intros HW. unfold hfold. rewrite Nat.add_0_r. f_equal.
    rewrite <- (map_map (fun l => s + l) f). f_equal. apply map_seq_shift.
  Qed.

  (** after c chunks the combined lanes hold the fold of W-1 extra seeds and the first c*W elements *)
  Lemma lanes_fold seed W f c : 0 < W ->
    hfold op W (lane_acc op seed W f c) = fold_left op (repeat seed (W - 1) ++ map f (seq 0 (c * W))) seed.
  Proof.
    intros HW. induction c as [|c IH].
    - simpl. rewrite app_nil_r. unfold hfold. f_equal. clear.
      set (k := W - 1). clearbody k. generalize 1. induction k as [|k IHk]; intros s; simpl; [reflexivity|]. f_equal. apply IHk.
    - cbn [lane_acc]. rewrite hfold_zip, IH.
      rewrite (hfold_shift W f (c * W) HW).
      rewrite op_fold. rewrite <- fold_left_app.
      replace (Datatypes.S c * W) with (c * W + W) by lia.
      rewrite seq_app, map_app. f_equal. rewrite <- app_assoc. f_equal. f_equal.
      destruct W as [|W']; [lia|]. simpl. replace (W' - 0) with W' by lia.
      replace (c * Datatypes.S W' + 1) with (Datatypes.S (c * Datatypes.S W')) by lia. reflexivity.
  Qed.

  (** C16: any lane count, any size: the reduction equals the in-order fold of the
      elements together with the W+1 seeds *)
  Theorem reduce_correct seed W n f : 0 < W -> reduce op seed W n f = reduce_spec op seed W n f.
  Proof.
    intros HW. unfold reduce, reduce_spec. rewrite (lanes_fold seed W f (n / W) HW).
    rewrite op_fold. rewrite <- fold_left_app.
    set (c := n / W).
    assert (Hc : c * W <= n) by (unfold c; rewrite Nat.mul_comm; apply Nat.mul_div_le; lia).
    assert (Hseq : seq 0 n = seq 0 (c * W) ++ seq (c * W) (n - c * W)).
    { replace (seq (c * W) (n - c * W)) with (seq (0 + c * W) (n - c * W)) by reflexivity.
      rewrite <- seq_app. f_equal. lia. }
    rewrite Hseq, map_app.
    apply fold_perm.
    destruct W as [|W']; [lia|]. simpl. replace (W' - 0) with W' by lia.
    rewrite <- !app_assoc.
    apply Permutation_sym. rewrite !app_assoc. apply Permutation_middle.
  Qed.
End Proofs.

(** sums and products over a scalar structure *)
Section Sums.
  Variable S : Scalar.
  Hypothesis L : RingLaws S.

  Lemma fold_repeat_zero W x : fold_left (sadd S) (repeat (s0 S) W) x = x.
  Proof. induction W as [|W IH]; simpl; [reflexivity|]. rewrite (add_0_r S L). exact IH. Qed.

  Theorem sum_exact W n (f : nat -> S) : 0 < W ->
    reduce (sadd S) (s0 S) W n f = sum_n f n.
  Proof.
    intros HW. rewrite reduce_correct; try assumption.
    - unfold reduce_spec. rewrite fold_left_app, fold_repeat_zero.
      unfold sum_n, sum_from. generalize (s0 S). generalize 0.
      induction n as [|n IH]; intros s x; simpl; [reflexivity|]. apply IH.
    - apply (add_assoc S L).
    - apply (add_comm S L).
  Qed.

  Lemma fold_repeat_one W x : fold_left (smul S) (repeat (s1 S) W) x = x.
  Proof. induction W as [|W IH]; simpl; [reflexivity|]. rewrite (mul_1_r S L). exact IH. Qed.

  Theorem product_exact W n (f : nat -> S) : 0 < W ->
    reduce (smul S) (s1 S) W n f = fold_left (smul S) (map f (seq 0 n)) (s1 S).
  Proof.
    intros HW. rewrite reduce_correct; try assumption.
    - unfold reduce_spec. rewrite fold_left_app, fold_repeat_one. reflexivity.
    - apply (mul_assoc S L).
    - apply (mul_comm S L).
  Qed.
End Sums.

(** max / min over Z (the exact element types): the result bounds every element and,
    when the seed does not exceed the elements and there is at least one, is an element *)
Local Open Scope Z_scope.

Lemma fold_max_ge l x : forall y, (y = x \/ In y l) -> y <= fold_left Z.max l x.
Proof.
  revert x. induction l as [|a l IH]; intros x y [->|H]; simpl in *; try lia; try contradiction.
  - apply (Z.le_trans _ (Z.max x a)); [lia|]. apply IH. left; reflexivity.
  - destruct H as [<-|H]; [apply (Z.le_trans _ (Z.max x a)); [lia|apply IH; left; reflexivity] | apply IH; right; exact H].
Qed.
Lemma fold_max_in l x : fold_left Z.max l x = x \/ In (fold_left Z.max l x) l.
Proof.
  revert x. induction l as [|a l IH]; intros x; simpl; [left; reflexivity|].
  destruct (IH (Z.max x a)) as [E|E]; [|right; right; exact E].
  rewrite E. destruct (Z.max_spec x a) as [[_ ->]|[_ ->]]; [right; left; reflexivity | left; reflexivity].
Qed.

Theorem max_correct seed W n (f : nat -> Z) : (0 < W)%nat -> (0 < n)%nat ->
  (forall i, (i < n)%nat -> seed <= f i) ->
  let r := reduce Z.max seed W n f in
  (forall i, (i < n)%nat -> f i <= r) /\ (exists i, (i < n)%nat /\ r = f i).
Proof.
  intros HW Hn Hseed r. unfold r. rewrite (reduce_correct Z Z.max Z.max_assoc Z.max_comm) by exact HW.
  unfold reduce_spec. split.
  - intros i Hi. apply fold_max_ge. right. apply in_or_app. right. apply in_map. apply in_seq. lia.
  - destruct (fold_max_in (repeat seed W ++ map f (seq 0 n)) seed) as [E|E].
    + exists 0%nat. split; [lia|].
      assert (f 0%nat <= fold_left Z.max (repeat seed W ++ map f (seq 0 n)) seed).
      { apply fold_max_ge. right. apply in_or_app. right. apply in_map. apply in_seq. lia. }
      pose proof (Hseed 0%nat Hn). lia.
    + apply in_app_or in E. destruct E as [E|E].
      * apply repeat_spec in E. exists 0%nat. split; [lia|].
        assert (f 0%nat <= fold_left Z.max (repeat seed W ++ map f (seq 0 n)) seed).
        { apply fold_max_ge. right. apply in_or_app. right. apply in_map. apply in_seq. lia. }
        pose proof (Hseed 0%nat Hn). lia.
      * apply in_map_iff in E. destruct E as [i [E Hi]]. apply in_seq in Hi. exists i. split; [lia|]. symmetry. exact E.
Qed.

Theorem min_correct seed W n (f : nat -> Z) : (0 < W)%nat -> (0 < n)%nat ->
  (forall i, (i < n)%nat -> f i <= seed) ->
  let r := reduce Z.min seed W n f in
  (forall i, (i < n)%nat -> r <= f i) /\ (exists i, (i < n)%nat /\ r = f i).
Proof.
  intros HW Hn Hseed.
  (* min x y = - max (-x) (-y) *)
  assert (Hmm : forall c g, Z.opp (lane_acc Z.min seed W g c 0%nat) = Z.opp (lane_acc Z.min seed W g c 0%nat)) by reflexivity.
  cbv zeta.
  assert (Hneg : reduce Z.min seed W n f = - reduce Z.max (- seed) W n (fun i => - f i)).
  { rewrite !(reduce_correct Z Z.min Z.min_assoc Z.min_comm), !(reduce_correct Z Z.max Z.max_assoc Z.max_comm) by exact HW.
    unfold reduce_spec.
    assert (G : forall l x, fold_left Z.min l x = - fold_left Z.max (map Z.opp l) (- x)).
    { induction l as [|a l IH]; intros x; simpl; [lia|]. rewrite IH. f_equal. f_equal. lia. }
    rewrite G. f_equal. f_equal. rewrite map_app, map_map. f_equal.
    clear. induction W as [|W IH]; simpl; [reflexivity|]. f_equal. exact IH. }
  destruct (max_correct (- seed) W n (fun i => - f i) HW Hn) as [H1 [i [Hi H2]]].
  { intros i Hi. specialize (Hseed i Hi). lia. }
  rewrite Hneg. split.
  - intros j Hj. specialize (H1 j Hj). lia.
  - exists i. split; [exact Hi|]. lia.
Qed.
Local Close Scope Z_scope.

(** predicates *)
Lemma all_of_spec f n : all_of f n = forallb f (seq 0 n).
Proof. unfold all_of. generalize 0. induction n as [|n IH]; intros s; simpl; [reflexivity|]. rewrite IH. destruct (f s); reflexivity. Qed.
Lemma any_of_spec f n : any_of f n = existsb f (seq 0 n).
Proof. unfold any_of. generalize 0. induction n as [|n IH]; intros s; simpl; [reflexivity|]. rewrite IH. destruct (f s); reflexivity. Qed.
(* faithful to the code: none_of has the body of any_of (known finding; the unedited
   upstream test suite asserts this behaviour, so it cannot be repaired here) *)
Lemma none_of_is_any_of f n : none_of f n = any_of f n.
Proof. reflexivity. Qed.
Lemma none_of_refuted : exists f n, none_of f n <> negb (any_of f n).
Proof. exists (fun _ => false), 1. vm_compute. discriminate. Qed.

Lemma det2_ok a : det2 a = det_spec 2 a.
Proof. unfold det2, det_spec. cbn -[Z.mul Z.add Z.sub]. ring. Qed.
Lemma det3_ok a : det3 a = det_spec 3 a.
Proof. unfold det3, det_spec. cbn -[Z.mul Z.add Z.sub]. ring. Qed.
Lemma det3_avx_ok a : det3_avx a = det_spec 3 a.
Proof. unfold det3_avx, det_spec. cbn -[Z.mul Z.add Z.sub]. ring. Qed.
Lemma det4_ok a : det4 a = det_spec 4 a.
Proof. unfold det4, det_spec. cbn -[Z.mul Z.add Z.sub]. ring. Qed.
