(** A fold of single-assignment steps reaches the simultaneous solution of its defining equations:
    if the value stored at entry i depends only on entries of smaller rank and the entries are visited in
    strictly increasing rank, then in the FINAL state every visited entry equals its defining expression
    evaluated on the final state, and every other entry is untouched. *)
From Coq Require Import Arith List Lia Bool Sorting.Sorted.
From FastorV Require Import Model.Linalg.
Import ListNotations.

Section SA.
  Variables (K F : Type) (eqb : K -> K -> bool).
  Hypothesis eqb_spec : forall a b, reflect (a = b) (eqb a b).
  Variable g : K -> (K -> F) -> F.
  Variable rank : K -> nat.
  Hypothesis dep : forall i v v', (forall k, rank k < rank i -> v k = v' k) -> g i v = g i v'.

  Lemma sa_frame order : forall v0 k, ~ In k order -> sa_run eqb g order v0 k = v0 k.
  Proof.
    induction order as [|a rest IH]; intros v0 k Hk; cbn [sa_run fold_left]; [reflexivity|].
    fold (sa_run eqb g rest (sa_step eqb g v0 a)). rewrite IH by (intros H; apply Hk; right; exact H).
    unfold sa_step. destruct (eqb_spec k a) as [->|]; [exfalso; apply Hk; left; reflexivity | reflexivity].
  Qed.

  Theorem sa_fixpoint order : StronglySorted (fun a b => rank a < rank b) order ->
    forall v0 i, In i order -> sa_run eqb g order v0 i = g i (sa_run eqb g order v0).
  Proof.
    induction 1 as [|a rest Hs IH Hall]; intros v0 i Hi; [destruct Hi|].
    cbn [sa_run fold_left]. fold (sa_run eqb g rest (sa_step eqb g v0 a)).
    destruct Hi as [<-|Hi]; [|apply IH; exact Hi].
    assert (Hnot : ~ In a rest).
    { intros Hin. rewrite Forall_forall in Hall. specialize (Hall a Hin). lia. }
    rewrite sa_frame by exact Hnot. unfold sa_step at 1. destruct (eqb_spec a a) as [_|Hne]; [|exfalso; apply Hne; reflexivity].
    apply dep. intros k Hk.
    rewrite sa_frame.
    - unfold sa_step. destruct (eqb_spec k a) as [->|]; [lia | reflexivity].
    - intros Hin. rewrite Forall_forall in Hall. specialize (Hall k Hin). lia.
  Qed.
End SA.
