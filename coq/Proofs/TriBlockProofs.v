(** The recursive block inversion of triangular matrices (ut_inverse_dispatcher / lut_inverse_dispatcher,
    unary_inv_op.h), as identities of a block algebra (same structure as Proofs/SchurProofs.v; the split point
    plays no role, so every size class 4|5, 8|9, 16|17, 32|33, ... is covered):
      upper:  [a b; 0 d]^-1 = [ia, -(ia*(b*id)); 0, id]        (b_invd = b*id; -matmul(inv_a, b_invd))
      lower:  [a 0; c d]^-1 = [ia, 0; -(id*(c*ia)), id]        (c_inva = c*ia; -matmul(inv_d, c_inva))
    given two-sided inverses ia of a and id of d. *)
From Coq Require Import Setoid.
From FastorV Require Import Proofs.SchurProofs.
Section TriBlock.
  Variable R : Type.
  Variables (add mul : R -> R -> R) (neg : R -> R) (zero one : R).
  Notation "x + y" := (add x y). Notation "x * y" := (mul x y). Notation "- x" := (neg x).
  Hypothesis addC : forall x y, x + y = y + x.
  Hypothesis addA : forall x y z, x + (y + z) = (x + y) + z.
  Hypothesis add0 : forall x, zero + x = x.
  Hypothesis addN : forall x, x + - x = zero.
  Hypothesis mulA : forall x y z, x * (y * z) = (x * y) * z.
  Hypothesis mul1l : forall x, one * x = x.
  Hypothesis mul1r : forall x, x * one = x.
  Hypothesis distL : forall x y z, x * (y + z) = x * y + x * z.
  Hypothesis distR : forall x y z, (x + y) * z = x * z + y * z.

  Let add0r := add0r R add zero addC add0.
  Let addNl := addNl R add neg zero addC addN.
  Let mul0r := mul0r R add mul neg zero addC addA add0 addN distL.
  Let mul0l := mul0l R add mul neg zero addC addA add0 addN distR.
  Let mulNr := mulNr R add mul neg zero addC addA add0 addN distL.
  Let mulNl := mulNl R add mul neg zero addC addA add0 addN distR.

  Variables a b c d ia id : R.
  Hypothesis ia_l : ia * a = one. Hypothesis ia_r : a * ia = one.
  Hypothesis id_l : id * d = one. Hypothesis id_r : d * id = one.

  (** upper block triangular *)
  Let ub := - (ia * (b * id)).
  Theorem ut_right_inverse :
    a * ia + b * zero = one /\ a * ub + b * id = zero /\ zero * ia + d * zero = zero /\ zero * ub + d * id = one.
  Proof.
    unfold ub. repeat split.
    - rewrite mul0r, add0r. exact ia_r.
    - rewrite mulNr, mulA, ia_r, mul1l. apply addNl.
    - rewrite mul0l, mul0r. apply add0.
    - rewrite mul0l, add0. exact id_r.
  Qed.
  Theorem ut_left_inverse :
    ia * a + ub * zero = one /\ ia * b + ub * d = zero /\ zero * a + id * zero = zero /\ zero * b + id * d = one.
  Proof.
    unfold ub. repeat split.
    - rewrite mul0r, add0r. exact ia_l.
    - rewrite mulNl. rewrite <- !mulA. rewrite id_l, mul1r. apply addN.
    - rewrite mul0l, mul0r. apply add0.
    - rewrite mul0l, add0. exact id_l.
  Qed.

  (** lower block triangular *)
  Let lc := - (id * (c * ia)).
  Theorem lt_right_inverse :
    a * ia + zero * lc = one /\ a * zero + zero * id = zero /\ c * ia + d * lc = zero /\ c * zero + d * id = one.
  Proof.
    unfold lc. repeat split.
    - rewrite mul0l, add0r. exact ia_r.
    - rewrite mul0r, mul0l. apply add0.
    - rewrite mulNr, mulA, id_r, mul1l. apply addN.
    - rewrite mul0r, add0. exact id_r.
  Qed.
  Theorem lt_left_inverse :
    ia * a + zero * c = one /\ ia * zero + zero * d = zero /\ lc * a + id * c = zero /\ lc * zero + id * d = one.
  Proof.
    unfold lc. repeat split.
    - rewrite mul0l, add0r. exact ia_l.
    - rewrite mul0r, mul0l. apply add0.
    - rewrite mulNl. rewrite <- !mulA. rewrite ia_l, mul1r. apply addNl.
    - rewrite mul0r, add0. exact id_l.
  Qed.
End TriBlock.
