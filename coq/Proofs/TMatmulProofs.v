From Coq Require Import Arith List Lia Bool.
From FastorV Require Import Base.Scalar Base.Mem Base.BigSum Base.Tiling Model.Cfg Model.Matmul Model.TMatmul Proofs.MatmulProofs.
Import ListNotations.

Section Proofs.
  Variable S : Scalar.
  Hypothesis L : RingLaws S.

  Lemma sum_from_shift lo n (f : nat -> S) : sum_from lo n f (s0 S) = sum_n (fun k => f (lo + k)) n.
  Proof.
    induction n as [|n IH]; [reflexivity|].
    rewrite sum_from_S, IH, (sum_n_S S). reflexivity.
  Qed.

  (** a clipped sum equals the full sum when everything outside the clip is zero *)
  Lemma clipped_sum (f : nat -> S) K kf kl :
    kl <= K -> (forall k, k < K -> ~ (kf <= k < kl) -> f k = s0 S) ->
    sum_from kf (kl - kf) f (s0 S) = sum_n f K.
  Proof.
    intros Hkl Hz. rewrite sum_from_shift.
    destruct (Nat.le_gt_cases kl kf) as [Hle|Hlt].
    - replace (kl - kf) with 0 by lia. unfold sum_n at 1, sum_from; simpl.
      rewrite (sum_n_ext S f (fun _ => s0 S)) by (intros k Hk; apply Hz; lia).
      symmetry. apply (sum_n_zero S L).
    - transitivity (sum_n f (kf + ((kl - kf) + (K - kl)))); [|f_equal; lia].
      rewrite (sum_n_split S L f kf), (sum_n_split S L (fun k => f (kf + k)) (kl - kf)).
      rewrite (sum_n_ext S f (fun _ => s0 S) kf) by (intros k Hk; apply Hz; lia).
      rewrite (sum_n_zero S L), (add_0_l S L).
      rewrite (sum_n_ext S (fun k => f (kf + (kl - kf + k))) (fun _ => s0 S)) by (intros k Hk; apply Hz; lia).
      rewrite (sum_n_zero S L), (add_0_r S L). reflexivity.
  Qed.

  (** heart of C17: the block-level k-clipping never drops a non-zero term *)
  Lemma klip_sound tl tr M K N (a b : nat -> S) i R j C r c k :
    lhs_tri tl M K a -> rhs_tri tr K N b ->
    r < M -> c < N -> k < K -> i <= r < i + R -> j <= c < j + C ->
    ~ (find_kfirst tl tr i j <= k < find_klast tl tr K R C i j) ->
    smul S (a (r * K + k)) (b (k * N + c)) = s0 S.
  Proof.
    intros Ha Hb Hr Hc Hk Hir Hjc Hout.
    destruct (Ha r k Hr Hk) as [HaL HaU]. destruct (Hb k c Hk Hc) as [HbL HbU].
    assert (Za : a (r * K + k) = s0 S -> smul S (a (r * K + k)) (b (k * N + c)) = s0 S)
      by (intros ->; apply (mul_0_l S L)).
    assert (Zb : b (k * N + c) = s0 S -> smul S (a (r * K + k)) (b (k * N + c)) = s0 S)
      by (intros ->; apply (mul_0_r S L)).
    unfold find_kfirst, find_klast, tL, tU, tG in *.
    destruct tl as [|[|[|tl]]]; destruct tr as [|[|[|tr]]]; cbn [Nat.eqb orb] in Hout;
    destruct (Nat.lt_ge_cases r k), (Nat.lt_ge_cases k r), (Nat.lt_ge_cases k c), (Nat.lt_ge_cases c k);
    first [ apply Za, HaL; [reflexivity|lia] | apply Za, HaU; [reflexivity|lia]
          | apply Zb, HbL; [reflexivity|lia] | apply Zb, HbU; [reflexivity|lia]
          | exfalso; apply Hout; lia ].
  Qed.

  Lemma find_klast_le tl tr K R C i j : find_klast tl tr K R C i j <= K.
  Proof.
    unfold find_klast. destruct (tl =? tL), (tr =? tU), ((tl =? tU) || (tl =? tG)); lia.
  Qed.

  (** admissible block lists *)
  Definition tiles_ok (W M N : nat) (tiles : list btile) : Prop :=
    (forall t, In t tiles ->
       (forall r, In r (bt_rows t) -> r < M /\ (bt_tagged t = true -> bt_i t <= r < bt_i t + bt_R t)) /\
       (forall j k, In (j, k) (bt_cols t) ->
          j + cwidth W k <= N /\ 0 < cwidth W k /\ (forall rem, k = CMask rem -> rem <= W) /\
          (bt_tagged t = true -> bt_j t <= j /\ j + cwidth W k <= bt_j t + bt_C t)))
    /\ (forall r x, r < M -> x < N ->
          exists t j k, In t tiles /\ In r (bt_rows t) /\ In (j, k) (bt_cols t) /\ j <= x < j + cwidth W k).

  Lemma ttile_wr_value W K N (a b : nat -> S) kf kl r j k p :
    0 < W -> j + cwidth W k <= N -> (forall rem, k = CMask rem -> rem <= W) ->
    covers (ttile_wr W K N a b kf kl r (j, k)) p = true ->
    exists x, p = r * N + x /\ j <= x < j + cwidth W k /\
      wval (ttile_wr W K N a b kf kl r (j, k)) (p - woff (ttile_wr W K N a b kf kl r (j, k)))
      = sum_from kf (kl - kf) (fun kk => smul S (a (r * K + kk)) (b (kk * N + x))) (s0 S).
  Proof.
    intros HW Hr Hm. unfold covers.
    destruct k as [| | rem]; cbn [ttile_wr woff wlen won wval wr_store wr_maskstore wr_store1 cwidth] in *;
      intros Cv; apply andb_prop in Cv; destruct Cv as [Cv C3]; apply andb_prop in Cv; destruct Cv as [C1 C2];
      apply Nat.leb_le in C1; apply Nat.ltb_lt in C2.
    - exists (j + (p - (r * N + j))). split; [lia|]. split; [lia|].
      set (l := p - (r * N + j)).
      rewrite vacc_from_lane, (dot_fma_sum S L). unfold vzero.
      apply sum_from_ext. intros kk _. unfold vload. f_equal. f_equal. lia.
    - exists j. split; [lia|]. split; [lia|]. reflexivity.
    - rewrite lane_on_make in C3 by (apply Hm; reflexivity). apply Nat.ltb_lt in C3.
      set (l := p - (r * N + j)) in *.
      assert (Hon : lane_on W (make_maska W rem) l = true)
        by (rewrite lane_on_make by (apply Hm; reflexivity); apply Nat.ltb_lt; exact C3).
      exists (j + l). split; [unfold l; lia|]. split; [lia|].
      rewrite vacc_from_lane, (dot_fma_sum S L). unfold vzero.
      apply sum_from_ext. intros kk _. unfold vmaskload. rewrite Hon. f_equal. f_equal. lia.
  Qed.

  Lemma ttile_wr_covers W K N (a b : nat -> S) kf kl r j k x :
    0 < W -> j <= x < j + cwidth W k -> (forall rem, k = CMask rem -> rem <= W) ->
    covers (ttile_wr W K N a b kf kl r (j, k)) (r * N + x) = true.
  Proof.
    intros HW Hx Hm. unfold covers.
    destruct k as [| | rem]; cbn [ttile_wr woff wlen won wval wr_store wr_maskstore wr_store1 cwidth] in *.
    - rewrite andb_true_r. apply andb_true_intro. split; [apply Nat.leb_le | apply Nat.ltb_lt]; lia.
    - rewrite andb_true_r. apply andb_true_intro. split; [apply Nat.leb_le | apply Nat.ltb_lt]; lia.
    - assert (rem <= W) by (apply Hm; reflexivity).
      rewrite lane_on_make by assumption.
      apply andb_true_intro. split; [apply andb_true_intro; split; [apply Nat.leb_le | apply Nat.ltb_lt] | apply Nat.ltb_lt]; lia.
  Qed.

  (** exactness for any admissible block list *)
  Theorem btiles_exact W M K N tl tr tiles (a b c0 : nat -> S) :
    0 < W -> 0 < N -> tiles_ok W M N tiles -> lhs_tri tl M K a -> rhs_tri tr K N b ->
    forall p,
      run_wrs c0 (flat_map (btile_wrs W K N tl tr a b) tiles) p =
      if p <? M * N then mm_spec M K N a b (p / N) (p mod N) else c0 p.
  Proof.
    intros HW HN [Hok Hcov] Ha Hb p.
    rewrite (run_wrs_spec S (fun p => mm_spec M K N a b (p / N) (p mod N))).
    - destruct (Nat.ltb_spec p (M * N)) as [Hp|Hp].
      + replace (existsb _ _) with true; [reflexivity|]. symmetry. apply existsb_exists.
        destruct (divmod_pos p N HN) as [Hpe Hpm].
        assert (Hi : p / N < M) by (apply Nat.div_lt_upper_bound; lia).
        destruct (Hcov (p / N) (p mod N) Hi Hpm) as [t [j [k [Ht [Hr [Hjk Hx]]]]]].
        destruct (Hok t Ht) as [_ Hc]. destruct (Hc j k Hjk) as [_ [_ [Hm _]]].
        exists (ttile_wr W K N a b (bt_kfirst tl tr t) (bt_klast tl tr K t) (p / N) (j, k)). split.
        * apply in_flat_map. exists t. split; [exact Ht|]. unfold btile_wrs.
          apply in_flat_map. exists (p / N). split; [exact Hr|]. apply in_map. exact Hjk.
        * rewrite Hpe at 2. apply ttile_wr_covers; assumption.
      + replace (existsb _ _) with false; [reflexivity|]. symmetry.
        apply not_true_is_false. intros Hex. apply existsb_exists in Hex.
        destruct Hex as [w [Hin Hcv]]. apply in_flat_map in Hin. destruct Hin as [t [Ht Hin]].
        unfold btile_wrs in Hin. apply in_flat_map in Hin. destruct Hin as [r [Hr Hin]].
        apply in_map_iff in Hin. destruct Hin as [[j k] [<- Hjk]].
        destruct (Hok t Ht) as [Hrow Hc]. destruct (Hc j k Hjk) as [Hjr [_ [Hm _]]].
        destruct (ttile_wr_value W K N a b _ _ r j k p HW Hjr Hm Hcv) as [x [-> [Hx _]]].
        destruct (Hrow r Hr) as [HrM _]. nia.
    - intros w Hin q Hcv. apply in_flat_map in Hin. destruct Hin as [t [Ht Hin]].
      unfold btile_wrs in Hin. apply in_flat_map in Hin. destruct Hin as [r [Hr Hin]].
      apply in_map_iff in Hin. destruct Hin as [[j k] [<- Hjk]].
      destruct (Hok t Ht) as [Hrow Hc]. destruct (Hc j k Hjk) as [Hjr [Hpos [Hm Htag]]].
      destruct (Hrow r Hr) as [HrM Hrtag].
      destruct (ttile_wr_value W K N a b _ _ r j k q HW Hjr Hm Hcv) as [x [-> [Hx ->]]].
      assert (HxN : x < N) by lia.
      replace ((r * N + x) / N) with r by (rewrite Nat.div_add_l by lia; rewrite Nat.div_small by lia; lia).
      replace ((r * N + x) mod N) with x
        by (rewrite Nat.add_comm, Nat.mod_add by lia; rewrite Nat.mod_small by lia; reflexivity).
      unfold mm_spec. apply clipped_sum.
      + unfold bt_klast. destruct (bt_tagged t); [apply find_klast_le|lia].
      + intros kk Hkk Hout. unfold bt_kfirst, bt_klast in Hout.
        destruct (bt_tagged t) eqn:Etag.
        * destruct (Htag eq_refl) as [Hj1 Hj2]. destruct (Hrtag eq_refl) as [Hi1 Hi2].
          apply (klip_sound tl tr M K N a b (bt_i t) (bt_R t) (bt_j t) (bt_C t) r x kk); try assumption; lia.
        * exfalso. apply Hout. lia.
  Qed.

  (** the block lists of _tmatmul_base / _tmatmul_base_masked are admissible *)
  Lemma flat_map_map {A B C} (f : B -> list C) (g : A -> B) l :
    flat_map f (map g l) = flat_map (fun x => f (g x)) l.
  Proof. induction l as [|x l IH]; simpl; [reflexivity|]. rewrite IH. reflexivity. Qed.

  Lemma flat_map_singleton {A B} (g : A -> B) l : flat_map (fun x => [g x]) l = map g l.
  Proof. induction l as [|x l IH]; simpl; [reflexivity|]. rewrite IH. reflexivity. Qed.

  Lemma col_blocks_cols W nc N masked t0 t1 tm rows i R :
    flat_map bt_cols (col_blocks W nc N masked t0 t1 tm rows i R) = col_tiles W nc N masked.
  Proof.
    unfold col_blocks, col_tiles. rewrite !flat_map_app, !flat_map_map. cbn [bt_cols].
    apply f_equal2; [reflexivity|]. apply f_equal2; [apply flat_map_singleton|].
    destruct masked; rewrite flat_map_map; cbn [bt_cols]; apply flat_map_singleton.
  Qed.

  Lemma col_blocks_fields W nc N masked t0 t1 tm rows i R t :
    0 < W -> 0 < nc -> In t (col_blocks W nc N masked t0 t1 tm rows i R) ->
    bt_rows t = rows /\ bt_i t = i /\ bt_R t = R /\
    (forall j k, In (j, k) (bt_cols t) -> bt_j t <= j /\ j + cwidth W k <= bt_j t + bt_C t).
  Proof.
    intros HW Hnc. unfold col_blocks. rewrite !in_app_iff.
    intros [Hin | [Hin | Hin]].
    - apply in_map_iff in Hin. destruct Hin as [j0 [<- _]]. cbn. repeat split; try reflexivity.
      + apply in_map_iff in H. destruct H as [v [Heq Hv]]. inversion Heq; subst. lia.
      + apply in_map_iff in H. destruct H as [v [Heq Hv]]. inversion Heq; subst. apply in_seq in Hv. simpl. nia.
    - apply in_map_iff in Hin. destruct Hin as [j0 [<- _]]. cbn. repeat split; try reflexivity;
        destruct H as [Heq|[]]; inversion Heq; subst; simpl; lia.
    - destruct masked; apply in_map_iff in Hin; destruct Hin as [j0 [<- Hj0]]; cbn; repeat split; try reflexivity;
        try (destruct H as [Heq|[]]; inversion Heq; subst; simpl; lia).
      destruct H as [Heq|[]]; inversion Heq; subst; simpl.
      assert (N < N / W * W + W).
      { pose proof (Nat.div_mod N W ltac:(lia)). pose proof (Nat.mod_upper_bound N W ltac:(lia)). lia. }
      lia.
  Qed.

  Lemma col_blocks_ok W nc M N masked t0 t1 tm rows i R :
    0 < W -> 0 < nc ->
    (forall r, In r rows -> r < M /\ i <= r < i + R) ->
    (forall t, In t (col_blocks W nc N masked t0 t1 tm rows i R) ->
       (forall r, In r (bt_rows t) -> r < M /\ (bt_tagged t = true -> bt_i t <= r < bt_i t + bt_R t)) /\
       (forall j k, In (j, k) (bt_cols t) ->
          j + cwidth W k <= N /\ 0 < cwidth W k /\ (forall rem, k = CMask rem -> rem <= W) /\
          (bt_tagged t = true -> bt_j t <= j /\ j + cwidth W k <= bt_j t + bt_C t)))
    /\ (forall r x, In r rows -> x < N ->
          exists t j k, In t (col_blocks W nc N masked t0 t1 tm rows i R) /\ In r (bt_rows t) /\ In (j, k) (bt_cols t) /\ j <= x < j + cwidth W k).
  Proof.
    intros HW Hnc Hrows. split.
    - intros t Ht. destruct (col_blocks_fields _ _ _ _ _ _ _ _ _ _ t HW Hnc Ht) as [Er [Ei [ER Hc]]].
      split.
      + intros r Hr. rewrite Er in Hr. rewrite Ei, ER. destruct (Hrows r Hr). split; [assumption|intros _; assumption].
      + intros j k Hjk.
        assert (Hin : In (j, k) (col_tiles W nc N masked)).
        { rewrite <- (col_blocks_cols W nc N masked t0 t1 tm rows i R). apply in_flat_map. exists t. split; assumption. }
        destruct (col_tiles_in_range W nc N masked j k HW Hnc Hin) as [H1 [H2 H3]].
        repeat split; try assumption; apply (Hc j k Hjk).
    - intros r x Hr Hx.
      destruct (col_tiles_cover W nc N masked x HW Hnc Hx) as [j [k [Hin Hjx]]].
      rewrite <- (col_blocks_cols W nc N masked t0 t1 tm rows i R) in Hin. apply in_flat_map in Hin.
      destruct Hin as [t [Ht Hjk]]. exists t, j, k. repeat split; try assumption; try lia.
      destruct (col_blocks_fields _ _ _ _ _ _ _ _ _ _ t HW Hnc Ht) as [Er _]. rewrite Er. exact Hr.
  Qed.

  Lemma tmatmul_tiles_ok c t masked M N :
    tiles_ok (best_vsize c t N) M N (tmatmul_tiles c t masked M N).
  Proof.
    pose proof (best_vsize_pos c t N) as HW.
    unfold tmatmul_tiles.
    set (W := best_vsize c t N) in *.
    set (nr := num_simd_rows c W M). set (nc := num_simd_cols c W M N).
    assert (Hnr : 0 < nr) by (apply num_simd_rows_pos; lia).
    assert (Hnc : 0 < nc) by apply num_simd_cols_pos.
    set (RB := nr * 4). assert (HRB : 0 < RB) by (unfold RB; lia).
    assert (Hdiv : exists q, RB = q * 4) by (exists nr; reflexivity).
    set (M0 := M / RB * RB). set (M1 := M / 4 * 4).
    (* rows of each section are rows of [row_tiles RB 4 M] *)
    assert (Hsec1 : forall i r, In i (loop_starts 0 M0 RB) -> In r (seq i RB) -> r < M /\ i <= r < i + RB).
    { intros i r Hi Hr. split; [|apply in_seq in Hr; lia].
      apply (row_tiles_range RB 4 M r HRB ltac:(lia) Hdiv). unfold row_tiles. fold M0 M1.
      rewrite !in_app_iff. left. apply in_flat_map. exists i. split; assumption. }
    assert (Hsec2 : forall i r, In i (loop_starts M0 M1 4) -> In r (seq i 4) -> r < M /\ i <= r < i + 4).
    { intros i r Hi Hr. split; [|apply in_seq in Hr; lia].
      apply (row_tiles_range RB 4 M r HRB ltac:(lia) Hdiv). unfold row_tiles. fold M0 M1.
      rewrite !in_app_iff. right; left. apply in_flat_map. exists i. split; assumption. }
    assert (Hsec3 : forall r, In r (seq M1 (M - M1)) -> r < M /\ M1 <= r < M1 + (M - M1)).
    { intros r Hr. apply in_seq in Hr. lia. }
    split.
    - intros bt Hbt. rewrite !in_app_iff, !in_flat_map in Hbt.
      destruct Hbt as [[i [Hi Hbt]] | [[i [Hi Hbt]] | Hbt]].
      + apply (proj1 (col_blocks_ok W nc M N masked (negb masked) (negb masked) (negb masked) (seq i RB) i RB HW Hnc (fun r Hr => Hsec1 i r Hi Hr))). exact Hbt.
      + apply (proj1 (col_blocks_ok W nc M N masked (negb masked) true true (seq i 4) i 4 HW Hnc (fun r Hr => Hsec2 i r Hi Hr))). exact Hbt.
      + apply (proj1 (col_blocks_ok W nc M N masked false false false (seq M1 (M - M1)) M1 (M - M1) HW Hnc Hsec3)). exact Hbt.
    - intros r x Hr Hx.
      pose proof (row_tiles_cover RB 4 M r HRB ltac:(lia) Hdiv Hr) as Hin.
      unfold row_tiles in Hin. fold M0 M1 in Hin. rewrite !in_app_iff, !in_flat_map in Hin.
      destruct Hin as [[i [Hi Hri]] | [[i [Hi Hri]] | Hri]].
      + destruct (proj2 (col_blocks_ok W nc M N masked (negb masked) (negb masked) (negb masked) (seq i RB) i RB HW Hnc (fun r Hr => Hsec1 i r Hi Hr)) r x Hri Hx)
          as [bt [j [k [Hbt Hrest]]]].
        exists bt, j, k. split; [|exact Hrest]. rewrite !in_app_iff. left. apply in_flat_map. exists i. split; assumption.
      + destruct (proj2 (col_blocks_ok W nc M N masked (negb masked) true true (seq i 4) i 4 HW Hnc (fun r Hr => Hsec2 i r Hi Hr)) r x Hri Hx)
          as [bt [j [k [Hbt Hrest]]]].
        exists bt, j, k. split; [|exact Hrest]. rewrite !in_app_iff. right; left. apply in_flat_map. exists i. split; assumption.
      + destruct (proj2 (col_blocks_ok W nc M N masked false false false (seq M1 (M - M1)) M1 (M - M1) HW Hnc Hsec3) r x Hri Hx)
          as [bt [j [k [Hbt Hrest]]]].
        exists bt, j, k. split; [|exact Hrest]. rewrite !in_app_iff. right; right. exact Hbt.
  Qed.

  Lemma naive_tiles_ok M N : tiles_ok 1 M N (tmatmul_naive_tiles M N).
  Proof.
    unfold tmatmul_naive_tiles. split.
    - intros bt Hbt. apply in_flat_map in Hbt. destruct Hbt as [i [Hi Hbt]].
      apply in_map_iff in Hbt. destruct Hbt as [j [<- Hj]]. apply in_seq in Hi. apply in_seq in Hj. cbn.
      split.
      + intros r [<-|[]]. lia.
      + intros j0 k [Heq|[]]. inversion Heq; subst. simpl. repeat split; try lia. intros; discriminate.
    - intros r x Hr Hx. exists (mkBt [r] [(x, CScal)] r 1 x 1 true), x, CScal. cbn. repeat split; try lia; try (left; reflexivity).
      apply in_flat_map. exists r. split; [apply in_seq; lia|]. apply in_map_iff. exists x. split; [reflexivity|apply in_seq; lia].
  Qed.

  (** C17: for every configuration, type, tag pair and shape *)
  Theorem tmatmul_exact c t tl tr M K N (a b c0 : nat -> S) :
    0 < N -> lhs_tri tl M K a -> rhs_tri tr K N b ->
    forall p, tmatmul c t tl tr M K N a b c0 p =
              if p <? M * N then mm_spec M K N a b (p / N) (p mod N) else c0 p.
  Proof.
    intros HN Ha Hb p. unfold tmatmul, tmatmul_wrs. destruct (cplx t).
    - apply btiles_exact; try assumption; try lia. apply naive_tiles_ok.
    - apply btiles_exact; try assumption; [apply best_vsize_pos | apply tmatmul_tiles_ok].
  Qed.
End Proofs.
