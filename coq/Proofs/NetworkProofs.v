From Coq Require Import Arith ZArith List Lia Bool.
From FastorV Require Import Base.Scalar Base.BigSum Base.Shape Model.Einsum Model.Network Proofs.EinsumProofs.
Import ListNotations.

Section Proofs.
  Variable S : Scalar.
  Hypothesis L : RingLaws S.

  (** the Einstein sum does not depend on the order in which two labels are summed: this is
      why the denotation of a network is independent of the pairwise evaluation order *)
  Lemma nsum_ext ls (F G : env -> S) e : (forall e', F e' = G e') -> nsum ls F e = nsum ls G e.
  Proof.
    revert e. induction ls as [|[l d] r IH]; intros e H; simpl; [apply H|].
    apply (sum_n_ext S). intros x _. apply IH. exact H.
  Qed.

  Lemma nsum_env_ext ls (F : env -> S) : (forall ea eb, (forall k, ea k = eb k) -> F ea = F eb) ->
    forall ea eb, (forall k, ea k = eb k) -> nsum ls F ea = nsum ls F eb.
  Proof.
    intros HF. induction ls as [|[l d] r IH]; intros ea eb Hab; simpl; [apply HF; exact Hab|].
    apply (sum_n_ext S). intros z _. apply IH. intros k. unfold eupd. destruct (k =? l); [reflexivity | apply Hab].
  Qed.

  Theorem nsum_swap l1 d1 l2 d2 r (F : env -> S) e :
    l1 <> l2 -> (forall ea eb, (forall k, ea k = eb k) -> F ea = F eb) ->
    nsum ((l1, d1) :: (l2, d2) :: r) F e = nsum ((l2, d2) :: (l1, d1) :: r) F e.
  Proof.
    intros Hne HF. simpl. rewrite (sum_n_swap S L).
    apply (sum_n_ext S). intros y _. apply (sum_n_ext S). intros x _.
    apply nsum_env_ext; [exact HF|].
    intros k. unfold eupd. destruct (Nat.eqb_spec k l2), (Nat.eqb_spec k l1); try reflexivity. congruence.
  Qed.

  (** a label on which the summand does not depend contributes its extent as a factor: what
      makes contracting a pair first (summing its private labels early) legitimate *)
  Lemma nsum_inner_const l d r (F : env -> S) e :
    nsum ((l, d) :: r) F e = sum_n (fun x => nsum r F (eupd e l x)) d.
  Proof. reflexivity. Qed.
End Proofs.

(** KNOWN FINDING (refutation of the full statement on the faithful model): when the cost
    model selects the pairing (a,c) first and both the middle operand and the pair keep free
    labels, the data comes back in pairing order under the declared type *)
Local Open Scope Z_scope.
Lemma network3_refuted :
  exists I0 I1 I2 d0 d1 d2 (A B C : nat -> Z) o,
    in_range (out_dims (I0 ++ I1) I2 (d0 ++ d1) d2) o /\
    network3 (S:=ZS) I0 I1 I2 d0 d1 d2 A B C (flat (out_dims (I0 ++ I1) I2 (d0 ++ d1) d2) o)
    <> network3_spec (S:=ZS) I0 I1 I2 d0 d1 d2 A B C o.
Proof.
  exists [0;1]%nat, [2;3]%nat, [1;2]%nat, [2;2]%nat, [2;3]%nat, [2;2]%nat,
         (fun p => Z.of_nat p + 1), (fun p => Z.of_nat p + 2), (fun p => Z.of_nat p + 3), [0;1]%nat.
  split; [simpl; lia|]. vm_compute. discriminate.
Qed.
Local Close Scope Z_scope.
