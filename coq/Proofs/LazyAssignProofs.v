From Coq Require Import List Bool Arith ZArith.
From FastorV Require Import Base.Scalar Model.LazyAssign.
Import ListNotations.

Section Proofs.
  Variable S : Scalar.
  Hypothesis L : RingLaws S.
  Variable uf : nat -> S -> S.
  Variable lf : nat -> V S -> V S -> V S.
  Notation ev := (ev S uf lf).
  Notation run := (run S uf lf).

  (* ---- ring facts *)
  Let addC := add_comm S L. Let addA := add_assoc S L. Let add0 := add_0_l S L. Let subD := sub_def S L. Let negD := neg_def S L.
  Lemma add_0_r' a : sadd S a (s0 S) = a. Proof. rewrite addC; apply add0. Qed.
  Lemma add_cancel_l a b c : sadd S a b = sadd S a c -> b = c.
  Proof.
    intros H. assert (E : sadd S (sneg S a) (sadd S a b) = sadd S (sneg S a) (sadd S a c)) by (rewrite H; reflexivity).
    rewrite !addA in E. rewrite (addC (sneg S a) a), negD, !add0 in E. exact E.
  Qed.
  Lemma neg_add a b : sneg S (sadd S a b) = sadd S (sneg S a) (sneg S b).
  Proof.
    apply (add_cancel_l (sadd S a b)). rewrite negD.
    rewrite addA. rewrite <- (addA a b (sneg S a)). rewrite (addC b (sneg S a)). rewrite (addA a (sneg S a) b). rewrite negD, add0, negD. reflexivity.
  Qed.
  Lemma neg_neg a : sneg S (sneg S a) = a.
  Proof. apply (add_cancel_l (sneg S a)). rewrite negD. rewrite addC, negD. reflexivity. Qed.

  Lemma stage_ok op o x a b : two_step op o = true ->
    app S (second_op op o) (app S op x a) b = app S op x (bapp S o a b).
  Proof.
    destruct op, o; cbn; intros H; try discriminate H; try reflexivity;
      rewrite ?subD, ?neg_add, ?neg_neg; symmetry; apply addA.
  Qed.
  Lemma stage_swap op o x s b : two_step op o = true -> op <> ASet ->
    app S op (app S (second_op op o) x b) s = app S op x (bapp S o s b).
  Proof.
    destruct op, o; cbn; intros H Hn; try discriminate H; try (exfalso; apply Hn; reflexivity);
      rewrite ?subD, ?neg_add, ?neg_neg; rewrite <- addA; f_equal; apply addC.
  Qed.

  (* ---- an expression in which the destination does not occur does not depend on it *)
  Lemma ev_indep e : mentions S e = false -> forall d1 d2, ev d1 e = ev d2 e.
  Proof.
    induction e as [v|c| |f e IH|o a IHa b IHb|k a IHa b IHb]; cbn [mentions LazyAssign.ev]; intros H d1 d2; try reflexivity; try discriminate H.
    - rewrite (IH H d1 d2). reflexivity.
    - apply orb_false_elim in H as [Ha Hb]. rewrite (IHa Ha d1 d2), (IHb Hb d1 d2). reflexivity.
    - apply orb_false_elim in H as [Ha Hb]. rewrite (IHa Ha d1 d2), (IHb Hb d1 d2). reflexivity.
  Qed.
  Lemma prim_indep e : is_prim S e = true -> forall d1 d2, ev d1 e = ev d2 e.
  Proof. destruct e; cbn; intros H; try discriminate H; reflexivity. Qed.
  Lemma second_not_set op o : op <> ASet -> second_op op o <> ASet.
  Proof. destruct op, o; cbn; congruence. Qed.

  (** the repaired staged assignment computes "dst op (value of e)" with e read on the contents dst had BEFORE the statement *)
  Lemma run_correct e : forall alias op cur d0, (alias = true -> op <> ASet) ->
    forall i, run true alias op cur d0 e i = app S op (cur i) (ev (if alias then cur else d0) e i).
  Proof.
    induction e as [v|c| |f e IH|o a IHa b IHb|k a IHa b IHb]; intros alias op cur d0 Hset i; try reflexivity.
    - (* Un *) cbn [LazyAssign.run]. destruct (negb (req S (Un f e))); reflexivity.
    - (* Bin *)
      cbn [LazyAssign.run]. destruct (negb (req S (Bin o a b))); [reflexivity|].
      destruct (two_step op o) eqn:T2; cbn [negb]; [|reflexivity].
      destruct (is_prim S a) eqn:Pa.
      + (* primitive left operand *)
        destruct op; cbn [andb negb].
        * (* ASet, original order on a fresh destination *)
          assert (alias = false) as -> by (destruct alias; [exfalso; apply (Hset eq_refl); reflexivity | reflexivity]).
          rewrite IHb by (intros Hc; discriminate Hc). cbn [LazyAssign.ev]. destruct o; reflexivity.
        * rewrite IHb by (intros _; apply second_not_set; discriminate). cbn [LazyAssign.ev]. apply stage_swap; [exact T2 | discriminate].
        * rewrite IHb by (intros _; apply second_not_set; discriminate). cbn [LazyAssign.ev]. apply stage_swap; [exact T2 | discriminate].
        * discriminate T2.
        * discriminate T2.
      + destruct (alias && negb (is_prim S b) && mentions S b && negb match op with ASet => true | _ => false end) eqn:AL.
        * (* alias branch: the right operand is evaluated before dst is touched *)
          apply andb_prop in AL as [AL _]. apply andb_prop in AL as [AL _]. apply andb_prop in AL as [AL _]. subst alias.
          rewrite IHa by exact Hset. cbn [LazyAssign.ev]. apply stage_ok; exact T2.
        * rewrite IHb.
          2:{ intros Ha. apply second_not_set. apply Hset; exact Ha. }
          rewrite IHa by exact Hset. cbn [LazyAssign.ev].
          assert (E : ev (if alias then LazyAssign.run S uf lf true alias op cur d0 a else d0) b = ev (if alias then cur else d0) b).
          { destruct alias; [|reflexivity].
            destruct (is_prim S b) eqn:Pb; [apply prim_indep; exact Pb|].
            destruct (mentions S b) eqn:Mb; [|apply ev_indep; exact Mb].
            cbn in AL. destruct op; cbn in AL; try discriminate AL. exfalso; apply (Hset eq_refl); reflexivity. }
          rewrite E. apply stage_ok; exact T2.
  Qed.

  Theorem lazy_eq_eager op d e : forall i, assign_stmt S uf lf true op d e i = eager_stmt S uf lf op d e i.
  Proof.
    intros i. unfold assign_stmt, eager_stmt. destruct op.
    - rewrite run_correct by (intros H; discriminate H). reflexivity.
    - apply run_correct; intros _; discriminate.
    - apply run_correct; intros _; discriminate.
    - apply run_correct; intros _; discriminate.
    - apply run_correct; intros _; discriminate.
  Qed.
End Proofs.

(** the alias branch of the snapshot (copy of dst instead of the evaluated right operand) is wrong:
    D += L + D*D with D = 3 everywhere and L = 5 *)
Definition lf0 (k : nat) (a b : V ZS) : V ZS := a.
Definition uf0 (f : nat) (x : ZS) : ZS := x.
Definition ex_expr : expr ZS := Bin Add (Lz 0 (Leaf (S:=ZS) (fun _ => 5%Z)) (Leaf (S:=ZS) (fun _ => 0%Z))) (Bin Mul Dst Dst).
Lemma snapshot_alias_branch_refuted :
  assign_stmt ZS uf0 lf0 false AAdd (fun _ => 3%Z) ex_expr 0 <> eager_stmt ZS uf0 lf0 AAdd (fun _ => 3%Z) ex_expr 0.
Proof. vm_compute. discriminate. Qed.
(** and the scalar-first order of the snapshot: D += 2 + D*L *)
Definition ex_expr2 : expr ZS := Bin Add (Sc (S:=ZS) 2%Z) (Bin Mul Dst (Lz 0 (Leaf (S:=ZS) (fun _ => 5%Z)) (Leaf (S:=ZS) (fun _ => 0%Z)))).
Lemma snapshot_scalar_first_refuted :
  assign_stmt ZS uf0 lf0 false AAdd (fun _ => 3%Z) ex_expr2 0 <> eager_stmt ZS uf0 lf0 AAdd (fun _ => 3%Z) ex_expr2 0.
Proof. vm_compute. discriminate. Qed.
