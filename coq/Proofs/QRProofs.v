(** Row-wise modified Gram-Schmidt (qr_mgsr_dispatcher, unary_qr_op.h): whatever value the normalisation
    step stores in R(i,i) (here an arbitrary function [nrm] of the working column - sqrt of its squared
    norm in the code), as long as it is non-zero the factors reproduce the matrix, Q*R = A, and R is upper
    triangular with exact zeros below the diagonal (R.fill(0); only j >= i is ever written).
    Orthonormality of Q needs the specific value of [nrm] and real arithmetic: tied by correspondence only. *)
From Coq Require Import Arith List Lia Bool.
From FastorV Require Import Base.Scalar Base.BigSum Base.Field.
Import ListNotations.

Section MGS.
  Variable S : Scalar.
  Hypothesis F : FieldLaws S.
  Let L := f_ring S F.
  Notation "a +s b" := (sadd S a b) (at level 50, left associativity).
  Notation "a -s b" := (ssub S a b) (at level 50, left associativity).
  Notation "a *s b" := (smul S a b) (at level 40, left associativity).
  Definition mat := nat -> nat -> S.
  Variable M : nat.                         (* rows *)
  Variable nrm : (nat -> S) -> S.           (* step 1: R_ii from column i of the working matrix *)

  Record st := mkSt { Aw : mat; Qm : mat; Rm : mat }.
  (* one iteration of the outer loop, steps 1-4 *)
  Definition step (s : st) (i : nat) : st :=
    let rii := nrm (fun k => Aw s k i) in
    let Q' := fun k p => if p =? i then sdiv S (Aw s k i) rii else Qm s k p in
    let R' := fun p j => if p =? i then (if j =? i then rii else if i <? j then sum_n (fun k => Q' k i *s Aw s k j) M else Rm s p j) else Rm s p j in
    let A' := fun k j => if i <? j then Aw s k j -s Q' k i *s R' i j else Aw s k j in
    mkSt A' Q' R'.
  Definition init (A0 : mat) : st := mkSt A0 (fun _ _ => s0 S) (fun _ _ => s0 S).      (* Tensor A(A0); R.fill(0) *)
  Definition run (A0 : mat) (n : nat) : st := fold_left step (seq 0 n) (init A0).
  Definition pivots_ok (A0 : mat) (n : nat) : Prop := forall i, i < n -> nrm (fun k => Aw (run A0 i) k i) <> s0 S.

  Lemma run_S A0 n : run A0 (Datatypes.S n) = step (run A0 n) n.
  Proof. unfold run. rewrite seq_S, fold_left_app. reflexivity. Qed.

  Definition Inv (A0 : mat) (i : nat) (s : st) : Prop :=
    (forall k j, A0 k j = sum_n (fun p => Qm s k p *s Rm s p j) i +s (if i <=? j then Aw s k j else s0 S)) /\
    (forall p j, j < p \/ i <= p -> Rm s p j = s0 S).

  Lemma inv_init A0 : Inv A0 0 (init A0).
  Proof. split; [intros k j; cbn; unfold sum_n, sum_from; cbn; rewrite (add_0_l S L); reflexivity | intros; reflexivity]. Qed.

  Lemma inv_step A0 i s : Inv A0 i s -> nrm (fun k => Aw s k i) <> s0 S -> Inv A0 (Datatypes.S i) (step s i).
  Proof.
    intros [Ha Hr] Hp. split.
    - intros k j. rewrite (Ha k j). rewrite (sum_n_S S).
      assert (Esum : sum_n (fun p => Qm (step s i) k p *s Rm (step s i) p j) i = sum_n (fun p => Qm s k p *s Rm s p j) i).
      { apply (sum_n_ext S). intros p Hpi. cbn [step Qm Rm]. destruct (Nat.eqb_spec p i); [lia | reflexivity]. }
      rewrite Esum. rewrite <- !(add_assoc S L). f_equal.
      cbn [step Qm Rm Aw]. rewrite !Nat.eqb_refl.
      destruct (Nat.lt_trichotomy j i) as [Hji|[->|Hij]].
      + destruct (Nat.leb_spec i j); [lia|]. destruct (Nat.leb_spec (Datatypes.S i) j); [lia|].
        destruct (Nat.eqb_spec j i); [lia|]. destruct (Nat.ltb_spec i j); [lia|].
        rewrite (Hr i j) by lia. rewrite (mul_0_r S L), (add_0_l S L). reflexivity.
      + rewrite Nat.eqb_refl. destruct (Nat.leb_spec i i); [|lia]. destruct (Nat.leb_spec (Datatypes.S i) i); [lia|].
        rewrite (div_mul S F) by exact Hp. rewrite (add_0_r S L). reflexivity.
      + destruct (Nat.leb_spec i j); [|lia]. destruct (Nat.leb_spec (Datatypes.S i) j); [|lia].
        destruct (Nat.eqb_spec j i); [lia|]. destruct (Nat.ltb_spec i j); [|lia].
        rewrite (add_comm S L). symmetry. apply (sub_add_cancel S F).
    - intros p j Hpj. cbn [step Rm]. destruct (Nat.eqb_spec p i) as [->|Hne].
      + destruct Hpj as [Hji|Hge]; [|lia]. destruct (Nat.eqb_spec j i); [lia|]. destruct (Nat.ltb_spec i j); [lia|]. apply Hr; lia.
      + apply Hr. lia.
  Qed.

  Lemma inv_run A0 n : pivots_ok A0 n -> Inv A0 n (run A0 n).
  Proof.
    induction n as [|n IH]; intros Hp; [apply inv_init|].
    rewrite run_S. apply inv_step; [apply IH; intros i Hi; apply Hp; lia | apply Hp; lia].
  Qed.

  (** Q*R = A (columns 0..n-1) and R upper triangular with exact zeros below the diagonal *)
  Theorem mgs_reconstructs A0 n : pivots_ok A0 n ->
    (forall k j, j < n -> sum_n (fun p => Qm (run A0 n) k p *s Rm (run A0 n) p j) n = A0 k j) /\
    (forall p j, j < p -> Rm (run A0 n) p j = s0 S).
  Proof.
    intros Hp. destruct (inv_run A0 n Hp) as [Ha Hr]. split.
    - intros k j Hj. rewrite (Ha k j). destruct (Nat.leb_spec n j); [lia|]. rewrite (add_0_r S L). reflexivity.
    - intros p j Hpj. apply Hr. left; exact Hpj.
  Qed.

  (** the diagonal of R holds the normalisation values: determinant<QR> = product of them *)
  Theorem mgs_diag A0 n i : i < n -> Rm (run A0 n) i i = nrm (fun k => Aw (run A0 i) k i).
  Proof.
    intros Hi. induction n as [|n IH]; [lia|].
    rewrite run_S. cbn [step Rm]. destruct (Nat.eqb_spec i n) as [->|Hne]; [reflexivity | apply IH; lia].
  Qed.
End MGS.
