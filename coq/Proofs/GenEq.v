(** The definitions that lib/cxx2v.py translates from /repo's C++ source on every run
    (Gen/Generated.v) are equal to the hand-written model definitions the theorems are
    about.  A change of the source that changes a translated definition makes the
    corresponding lemma here fail (or keeps it true when the change is harmless and
    the proof is robust enough). *)
From Coq Require Import Arith ZArith List Bool Lia.
From FastorV Require Import Base.Tiling Model.Cfg Model.Matmul Model.TMatmul Model.Views Gen.Generated.
Import ListNotations.

(** * tmatmul.h: k-range clipping *)
Lemma gen_find_kfirst_eq tl tr i j : gen_find_kfirst tl tr i j = find_kfirst tl tr i j.
Proof. reflexivity. Qed.
Lemma gen_find_klast_eq tl tr K R C i j : gen_find_klast tl tr K R C i j = find_klast tl tr K R C i j.
Proof. reflexivity. Qed.

(** * matmul.h: dispatch *)
Definition wf_ety (t : ety) : Prop :=
  In t [ty_float; ty_double; ty_int32; ty_int64; ty_cfloat; ty_cdouble].

(* the dispatch as the source spells it: overload selection (enable_if), then the ladder *)
Definition gen_dispatch (c : cfg) (t : ety) (M K N : nat) : kernel :=
  let W := best_vsize c t N in
  if gen_matmul_generic t M K N then
    (if masks c then gen_ladder_masks t W M K N else gen_ladder_nomasks t W M K N)
  else KShuffle.

Lemma ltb_1_negb_leb x : (1 <? x) = negb (x <=? 1).
Proof. destruct (Nat.ltb_spec 1 x), (Nat.leb_spec x 1); simpl; try reflexivity; lia. Qed.

Lemma gen_dispatch_eq c t M K N : wf_ety t -> gen_dispatch c t M K N = dispatch c t M K N.
Proof.
  intros Ht. unfold gen_dispatch, dispatch, gen_matmul_generic, gen_ladder_masks, gen_ladder_nomasks.
  set (W := best_vsize c t N). clearbody W.
  rewrite ltb_1_negb_leb.
  assert (Hc : (is_fp t && negb (cplx t) && (tbytes t =? 4) || is_fp t && negb (cplx t) && (tbytes t =? 8))
               = is_fp t && negb (cplx t)).
  { unfold wf_ety in Ht. simpl in Ht.
    destruct Ht as [<-|[<-|[<-|[<-|[<-|[<-|[]]]]]]]; reflexivity. }
  rewrite Hc. clear Hc Ht.
  destruct (is_fp t), (cplx t), (masks c); simpl;
    destruct (M =? K), (M =? N); simpl;
    destruct ((M =? 2) || (M =? 3) || (M =? 4) || (M =? 8)); simpl; try reflexivity;
    destruct (N =? 1); simpl; try reflexivity;
    rewrite ?andb_true_r;
    destruct (((N =? W) || (N =? 2 * W) || (N =? 3 * W) || (N =? 4 * W) || (N =? 5 * W)) && negb (W =? 1)); try reflexivity;
    destruct (N <? 5 * W); try reflexivity;
    destruct (27 <? M * N * K); simpl; try reflexivity;
    destruct (N mod W <=? 1); reflexivity.
Qed.

(** * matmul_kernels.h / tmatmul.h: block constants, loops, call sites *)
Definition model_consts (c : cfg) (W M N : nat) : list nat :=
  let nr := num_simd_rows c W M in let nc := num_simd_cols c W M N in
  [4; nr; nc; nr * 4; M / (nr * 4) * (nr * 4); nc * W; N / (nc * W) * (nc * W); N / W * W; M / 4 * 4].

(* the loops over block origins that row_tiles / col_tiles (Base/Tiling.v) and
   tmatmul_tiles / col_blocks (Model/TMatmul.v) are made of: three row sections, each
   with the three column loops *)
Definition model_loops (c : cfg) (W M N : nat) (masked : bool) : list (nat * nat * nat) :=
  let nr := num_simd_rows c W M in let nc := num_simd_cols c W M N in
  let RB := nr * 4 in
  let M0 := M / RB * RB in let M1 := M / 4 * 4 in
  let N0 := N / (nc * W) * (nc * W) in let N1 := N / W * W in
  let cols := [(1, N0, nc * W); (1, N1, W); (1, N, if masked then N - N1 else 1)] in
  [(0, M0, RB)] ++ cols ++ [(0, M1, 4)] ++ cols ++ cols.

Ltac split_cfg c :=
  unfold num_simd_rows, num_simd_cols;
  destruct (outer_block c =? 0), (inner_block c =? 0); simpl; reflexivity.

Lemma gen_mmbase_consts_eq c W M K N :
  gen_mmbase_consts (outer_block c) (inner_block c) W M K N = model_consts c W M N.
Proof. unfold gen_mmbase_consts, model_consts. split_cfg c. Qed.
Lemma gen_mmbase_masked_consts_eq c W M K N :
  gen_mmbase_masked_consts (outer_block c) (inner_block c) W M K N = model_consts c W M N.
Proof. unfold gen_mmbase_masked_consts, model_consts. split_cfg c. Qed.
Lemma gen_tmbase_consts_eq c W M K N :
  gen_tmbase_consts (outer_block c) (inner_block c) W M K N = model_consts c W M N.
Proof. unfold gen_tmbase_consts, model_consts. split_cfg c. Qed.
Lemma gen_tmbase_masked_consts_eq c W M K N :
  gen_tmbase_masked_consts (outer_block c) (inner_block c) W M K N = model_consts c W M N.
Proof. unfold gen_tmbase_masked_consts, model_consts. split_cfg c. Qed.

Lemma gen_mmbase_loops_eq c W M K N :
  gen_mmbase_loops (outer_block c) (inner_block c) W M K N = model_loops c W M N false.
Proof. unfold gen_mmbase_loops, model_loops. split_cfg c. Qed.
Lemma gen_mmbase_masked_loops_eq c W M K N :
  gen_mmbase_masked_loops (outer_block c) (inner_block c) W M K N = model_loops c W M N true.
Proof. unfold gen_mmbase_masked_loops, model_loops. split_cfg c. Qed.
Lemma gen_tmbase_loops_eq c W M K N :
  gen_tmbase_loops (outer_block c) (inner_block c) W M K N = model_loops c W M N false.
Proof. unfold gen_tmbase_loops, model_loops. split_cfg c. Qed.
Lemma gen_tmbase_masked_loops_eq c W M K N :
  gen_tmbase_masked_loops (outer_block c) (inner_block c) W M K N = model_loops c W M N true.
Proof. unfold gen_tmbase_masked_loops, model_loops. split_cfg c. Qed.

(* kernel call sites: (kind, rows unrolled, row groups, column vectors, tags passed).
   Section 1: blocked / single vector / remainder; section 2: blocked, (vector and
   remainder inline); section 3: blocked with MM1 = M - M1 rows (1 when M = M1), rest inline. *)
Definition model_mm_calls (c : cfg) (W M N : nat) (masked : bool) : list (nat * nat * nat * nat * bool) :=
  let nr := num_simd_rows c W M in let nc := num_simd_cols c W M N in
  let M1 := M / 4 * 4 in
  let MM1 := if negb (M - M1 =? 0) then M - M1 else 1 in
  [(0, 4, nr, nc, false); (0, 4, nr, 1, false); (if masked then 2 else 1, 4, nr, 1, false);
   (0, 4, 1, nc, false); (0, MM1, 1, nc, false)].

(* tmatmul: which call sites pass the Lower/Upper tags (bt_tagged of Model/TMatmul.v):
   unmasked driver: all of sections 1 and 2; masked driver: none in section 1, in
   section 2 only the inline single-vector and masked-remainder code; section 3 never *)
Definition model_tm_calls (c : cfg) (W M N : nat) (masked : bool) : list (nat * nat * nat * nat * bool) :=
  let nr := num_simd_rows c W M in let nc := num_simd_cols c W M N in
  let M1 := M / 4 * 4 in
  let MM1 := if negb (M - M1 =? 0) then M - M1 else 1 in
  let tg := negb masked in
  [(0, 4, nr, nc, tg); (0, 4, nr, 1, tg); (if masked then 2 else 1, 4, nr, 1, tg);
   (0, 4, 1, nc, tg);
   (3, 4, W, 0, true); (4, 4, W, 0, true);
   (3, 4, if masked then W else 1, 0, true); (4, 4, if masked then W else 1, 0, true);
   (0, MM1, 1, nc, false)].

Lemma gen_mmbase_calls_eq c W M K N :
  gen_mmbase_calls (outer_block c) (inner_block c) W M K N = model_mm_calls c W M N false.
Proof. unfold gen_mmbase_calls, model_mm_calls. split_cfg c. Qed.
Lemma gen_mmbase_masked_calls_eq c W M K N :
  gen_mmbase_masked_calls (outer_block c) (inner_block c) W M K N = model_mm_calls c W M N true.
Proof. unfold gen_mmbase_masked_calls, model_mm_calls. split_cfg c. Qed.
Lemma gen_tmbase_calls_eq c W M K N :
  gen_tmbase_calls (outer_block c) (inner_block c) W M K N = model_tm_calls c W M N false.
Proof. unfold gen_tmbase_calls, model_tm_calls. split_cfg c. Qed.
Lemma gen_tmbase_masked_calls_eq c W M K N :
  gen_tmbase_masked_calls (outer_block c) (inner_block c) W M K N = model_tm_calls c W M N true.
Proof. unfold gen_tmbase_masked_calls, model_tm_calls. split_cfg c. Qed.

(** the tag flags of [model_tm_calls] are the ones [tmatmul_tiles] uses: sections 1 and 2
    of the tile list carry [bt_tagged] = these flags, section 3 carries false *)
Lemma tm_tags_used c t masked M N tile :
  In tile (tmatmul_tiles c t masked M N) ->
  let W := best_vsize c t N in
  let RB := num_simd_rows c W M * 4 in
  let nc := num_simd_cols c W M N in
  (In tile (flat_map (fun i => col_blocks W nc N masked (negb masked) (negb masked) (negb masked) (seq i RB) i RB)
                     (loop_starts 0 (M / RB * RB) RB)))
  \/ (In tile (flat_map (fun i => col_blocks W nc N masked (negb masked) true true (seq i 4) i 4)
                        (loop_starts (M / RB * RB) (M / 4 * 4) 4)))
  \/ (In tile (col_blocks W nc N masked false false false (seq (M / 4 * 4) (M - M / 4 * 4)) (M / 4 * 4) (M - M / 4 * 4))).
Proof. unfold tmatmul_tiles. rewrite !in_app_iff. tauto. Qed.

(** * Ranges.h *)
Local Open Scope Z_scope.
Lemma gen_range_detector_eq f l s : gen_range_detector f l s = rsize (mkU f l s).
Proof. reflexivity. Qed.
Lemma gen_fseq_range_detector_eq f l s : gen_fseq_range_detector f l s = rsize (mkU f l s).
Proof. reflexivity. Qed.
Lemma gen_seq_size_eq f l s : gen_seq_size f l s = rsize (mkU f l s).
Proof. reflexivity. Qed.

Lemma gen_to_positive_fseq_eq f l s n :
  gen_to_positive_fseq f l s n = (uf (normnd n (mkU f l s)), ul (normnd n (mkU f l s))).
Proof.
  unfold gen_to_positive_fseq, normnd; simpl.
  destruct (Z.ltb_spec l 0), (Z.leb_spec 0 f), (Z.ltb_spec f 0), (Z.eqb_spec l 0), (Z.eqb_spec f (-1)); simpl;
    try reflexivity; try lia.
Qed.
Lemma gen_to_positive_iseq_eq f l s n :
  gen_to_positive_iseq f l s n = (uf (normnd n (mkU f l s)), ul (normnd n (mkU f l s))).
Proof.
  unfold gen_to_positive_iseq, normnd; simpl.
  destruct (Z.ltb_spec l 0), (Z.leb_spec 0 f), (Z.ltb_spec f 0), (Z.eqb_spec l 0), (Z.eqb_spec f (-1)); simpl;
    try reflexivity; try lia.
Qed.
Local Close Scope Z_scope.

(** * simd_vector_abi.h *)
Lemma gen_simd_vector_size_eq a tb : gen_simd_vector_size a tb = simd_size a tb.
Proof.
  unfold gen_simd_vector_size, simd_size, abi_bits.
  destruct a as [|[|[|[|a]]]]; simpl Nat.eqb; cbv iota;
    match goal with |- context [?x =? 0] => destruct (x =? 0) end; reflexivity.
Qed.

Lemma gen_exact_multiple_eq a tb N :
  gen_exact_multiple a tb N =
  (let w := which_frac a tb N in
   (w, negb (w =? 1) && negb (a =? 1), (a =? 3) && (w =? 2), (a =? 2) && (w =? 2), (a =? 3) && (w =? 4))).
Proof.
  unfold gen_exact_multiple, which_frac. cbv zeta.
  destruct (simd_size a tb / N =? 2); [simpl; destruct (a =? 1); reflexivity|].
  destruct (simd_size a tb / N =? 4); simpl; destruct (a =? 1); reflexivity.
Qed.

(** [best_abi] (Model/Cfg.v) spelt with the translated members: the conditional type
    selection of choose_best_simd_type itself is a type-level computation that the
    translator does not handle; it is compared by value (harness prints V::Size) *)
Lemma best_abi_via_gen c t N :
  best_abi c t N =
  (let a := abi c in
   if negb (simd_ty t) then 0 else
   let '(w, is_exact, h512, h256, q512) := gen_exact_multiple a (tbytes t) N in
   let exact_abi := if h512 || h256 then half_abi a else if q512 then 1 else a in
   if is_exact then exact_abi else if masks c then a
   else if N <? gen_simd_vector_size a (tbytes t) then half_abi a else a).
Proof.
  unfold best_abi. rewrite gen_exact_multiple_eq, gen_simd_vector_size_eq. cbv zeta. reflexivity.
Qed.

(** * matmul_mk_smalln.h: the eleven overloads of _matmul_mk_smalln partition the values of N by the number
    nv = ceil(N / W) of column vectors, and the overload that serves N unrolls [smalln_unroll nv] rows with
    M0 = M / u * u - the row tiling [row_tiles (smalln_unroll nv) 1 M] of Model/Matmul.v [kernel_wrs KSmallN] *)
Lemma nv_of W N k : 0 < W -> (k - 1) * W < N -> N <= k * W -> 0 < k -> (N + W - 1) / W = k.
Proof.
  intros HW Hlo Hhi Hk. symmetry. apply (Nat.div_unique (N + W - 1) W k (N + W - 1 - W * k)); nia.
Qed.

Lemma gen_smalln_overloads_eq W M N : 0 < W -> 0 < N ->
  (* exactly one overload is enabled *)
  length (filter fst (gen_smalln_overloads W M N)) = 1 /\
  (* and, unless N > 5W (forwarded to the base kernel), it unrolls the model's number of rows *)
  Forall (fun e => fst e = true -> N <= 5 * W ->
                   snd e = (let u := smalln_unroll ((N + W - 1) / W) in (u, M / u * u)))
         (gen_smalln_overloads W M N).
Proof.
  intros HW HN. unfold gen_smalln_overloads. cbv zeta. split.
  - assert (Hcase : N < W \/ N = W \/ (W < N < 2 * W) \/ N = 2 * W \/ (2 * W < N < 3 * W) \/ N = 3 * W \/
                     (3 * W < N < 4 * W) \/ N = 4 * W \/ (4 * W < N < 5 * W) \/ N = 5 * W \/ 5 * W < N) by lia.
    destruct Hcase as [H|[H|[H|[H|[H|[H|[H|[H|[H|[H|H]]]]]]]]]];
      repeat match goal with
             | |- context [?x <? ?y] => first [rewrite (proj2 (Nat.ltb_lt x y)) by lia | rewrite (proj2 (Nat.ltb_ge x y)) by lia]
             | |- context [?x =? ?y] => first [rewrite (proj2 (Nat.eqb_eq x y)) by lia | rewrite (proj2 (Nat.eqb_neq x y)) by lia]
             end; reflexivity.
  - repeat (apply Forall_cons; [cbn [fst snd]; intros Hc Hle |]); [..| apply Forall_nil].
    + apply Nat.ltb_lt in Hc. rewrite (nv_of W N 1) by lia. reflexivity.
    + apply Nat.eqb_eq in Hc. rewrite (nv_of W N 1) by lia. reflexivity.
    + apply Bool.andb_true_iff in Hc. destruct Hc as [H1 H2]. apply Nat.ltb_lt in H1, H2. rewrite (nv_of W N 2) by lia. reflexivity.
    + apply Nat.eqb_eq in Hc. rewrite (nv_of W N 2) by lia. reflexivity.
    + apply Bool.andb_true_iff in Hc. destruct Hc as [H1 H2]. apply Nat.ltb_lt in H1, H2. rewrite (nv_of W N 3) by lia. reflexivity.
    + apply Nat.eqb_eq in Hc. rewrite (nv_of W N 3) by lia. reflexivity.
    + apply Bool.andb_true_iff in Hc. destruct Hc as [H1 H2]. apply Nat.ltb_lt in H1, H2. rewrite (nv_of W N 4) by lia. reflexivity.
    + apply Nat.eqb_eq in Hc. rewrite (nv_of W N 4) by lia. reflexivity.
    + apply Bool.andb_true_iff in Hc. destruct Hc as [H1 H2]. apply Nat.ltb_lt in H1, H2. rewrite (nv_of W N 5) by lia. reflexivity.
    + apply Nat.eqb_eq in Hc. rewrite (nv_of W N 5) by lia. reflexivity.
    + apply Nat.ltb_lt in Hc. lia.
Qed.
