(** Product chains: every parenthesisation the flop-count heuristic of binary_matmul_op.h can choose
    equals the left-to-right product (over any commutative ring). *)
From Coq Require Import Arith List Lia Bool.
From FastorV Require Import Base.Scalar Base.BigSum.
Import ListNotations.

Section Chain.
  Variable S : Scalar.
  Hypothesis L : RingLaws S.
  Definition mat := nat -> nat -> S.
  Definition meq (A B : mat) : Prop := forall i j, A i j = B i j.
  (* product over an inner dimension K *)
  Definition MM (K : nat) (A B : mat) : mat := fun i j => sum_n (fun p => smul S (A i p) (B p j)) K.

  Lemma MM_ext K A A' B B' : meq A A' -> meq B B' -> meq (MM K A B) (MM K A' B').
  Proof. intros HA HB i j; unfold MM. apply (sum_n_ext S). intros p _. rewrite HA, HB. reflexivity. Qed.

  Theorem MM_assoc K Lc A B C : meq (MM Lc (MM K A B) C) (MM K A (MM Lc B C)).
  Proof.
    intros i j; unfold MM.
    transitivity (sum_n (fun q => sum_n (fun p => smul S (smul S (A i p) (B p q)) (C q j)) K) Lc).
    { apply (sum_n_ext S). intros q _. symmetry. apply (sum_n_mul_r S L). }
    rewrite (sum_n_swap S L).
    apply (sum_n_ext S). intros p _.
    rewrite <- (sum_n_mul_l S L). apply (sum_n_ext S). intros q _. symmetry. apply (mul_assoc S L).
  Qed.

  (* a parenthesisation of a chain; each leaf carries its number of columns (= inner dimension towards the right) *)
  Inductive ptree := PL (A : mat) (c : nat) | PN (l r : ptree).
  Fixpoint cols (t : ptree) : nat := match t with PL _ c => c | PN _ r => cols r end.
  Fixpoint eval (t : ptree) : mat := match t with PL A _ => A | PN l r => MM (cols l) (eval l) (eval r) end.
  Fixpoint flatten (t : ptree) : list (mat * nat) := match t with PL A c => [(A, c)] | PN l r => flatten l ++ flatten r end.
  (* left-to-right: ((M0 M1) M2) ... *)
  Definition step (acc : mat * nat) (x : mat * nat) : mat * nat := (MM (snd acc) (fst acc) (fst x), snd x).
  Definition lfold (acc : mat * nat) (xs : list (mat * nat)) : mat * nat := fold_left step xs acc.
  Definition left_to_right (xs : list (mat * nat)) : mat :=
    match xs with [] => fun _ _ => s0 S | x :: r => fst (lfold x r) end.

  Lemma lfold_ext xs : forall a a', meq (fst a) (fst a') -> snd a = snd a' ->
    meq (fst (lfold a xs)) (fst (lfold a' xs)) /\ snd (lfold a xs) = snd (lfold a' xs).
  Proof.
    induction xs as [|x xs IH]; intros a a' H1 H2; cbn [lfold fold_left]; [split; assumption|].
    apply IH; cbn [step fst snd]; [rewrite H2; apply MM_ext; [exact H1 | intros i j; reflexivity] | reflexivity].
  Qed.

  Lemma absorb r : forall acc,
    meq (MM (snd acc) (fst acc) (eval r)) (fst (lfold acc (flatten r))) /\ cols r = snd (lfold acc (flatten r)).
  Proof.
    induction r as [B c|r1 IH1 r2 IH2]; intros acc.
    - cbn. split; [intros i j; reflexivity | reflexivity].
    - cbn [eval flatten cols]. unfold lfold. rewrite fold_left_app. fold (lfold acc (flatten r1)). fold (lfold (lfold acc (flatten r1)) (flatten r2)).
      destruct (IH1 acc) as [E1 C1].
      destruct (IH2 (lfold acc (flatten r1))) as [E2 C2].
      split; [|exact C2].
      intros i j.
      rewrite <- (E2 i j). rewrite <- C1.
      transitivity (MM (cols r1) (MM (snd acc) (fst acc) (eval r1)) (eval r2) i j).
      + symmetry. apply MM_assoc.
      + apply MM_ext; [exact E1 | intros a b; reflexivity].
  Qed.

  (** every association of a product chain equals the left-to-right product *)
  Theorem chain_any_association t : meq (eval t) (left_to_right (flatten t)).
  Proof.
    induction t as [A c|l IHl r IHr].
    - intros i j; reflexivity.
    - cbn [eval flatten].
      destruct (flatten l) as [|x xs] eqn:Fl.
      { exfalso. clear -Fl. induction l; cbn in Fl; [discriminate | destruct (flatten l1); [auto | discriminate]]. }
      cbn [app left_to_right]. unfold lfold. rewrite fold_left_app. fold (lfold x xs). fold (lfold (lfold x xs) (flatten r)).
      destruct (absorb r (lfold x xs)) as [E _].
      assert (Hl : meq (eval l) (fst (lfold x xs))) by exact IHl.
      assert (Hc : cols l = snd (lfold x xs)).
      { clear E Hl IHl IHr. revert x xs Fl. induction l as [A c|l1 IH1 l2 IH2]; intros x xs Fl.
        - cbn in Fl. injection Fl as <- <-. reflexivity.
        - cbn [flatten cols] in *. destruct (flatten l1) as [|y ys] eqn:F1.
          { exfalso. clear -F1. induction l1; cbn in F1; [discriminate | destruct (flatten l1_1); [auto | discriminate]]. }
          cbn [app] in Fl. injection Fl as <- <-. unfold lfold. rewrite fold_left_app. fold (lfold y ys).
          destruct (absorb l2 (lfold y ys)) as [_ C]. exact C. }
      intros i j. rewrite <- (E i j). rewrite <- Hc. apply MM_ext; [exact Hl | intros a b; reflexivity].
  Qed.
End Chain.
