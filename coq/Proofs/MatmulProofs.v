From Coq Require Import Arith List Lia Bool.
From FastorV Require Import Base.Scalar Base.Mem Base.BigSum Base.Tiling Model.Cfg Model.Matmul.
Import ListNotations.

Section Proofs.
  Variable S : Scalar.

  Definition rowf (K : nat) (a : nat -> S) (i : nat) : nat -> S := fun k => a (i * K + k).
  Definition colf (N : nat) (b : nat -> S) (j : nat) : nat -> S := fun k => b (k * N + j).

  (** admissible tilings *)
  Definition rows_ok (M : nat) (rows : list nat) : Prop :=
    (forall r, In r rows -> r < M) /\ (forall r, r < M -> In r rows).
  Definition cols_ok (W N : nat) (cols : list (nat * ckind)) : Prop :=
    (forall j k, In (j, k) cols -> j + cwidth W k <= N /\ 0 < cwidth W k /\ (forall rem, k = CMask rem -> rem <= W))
    /\ (forall x, x < N -> exists j k, In (j, k) cols /\ j <= x < j + cwidth W k).

  (** what one tile writes: a position of row r, inside [0,N), holding a dot recurrence *)
  Lemma tile_wr_value W K N mf a b r j k p :
    0 < W -> 0 < K ->
    j + cwidth W k <= N -> (forall rem, k = CMask rem -> rem <= W) ->
    covers (tile_wr W K N mf a b r (j, k)) p = true ->
    exists x, p = r * N + x /\ j <= x < j + cwidth W k /\
      is_dot K (rowf K a r) (colf N b x) (wval (tile_wr W K N mf a b r (j, k)) (p - woff (tile_wr W K N mf a b r (j, k)))).
  Proof.
    intros HW HK Hr Hm. unfold covers.
    destruct k as [| | rem]; cbn [tile_wr woff wlen won wval wr_store wr_maskstore wr_store1 cwidth] in *;
      intros C; apply andb_prop in C; destruct C as [C C3]; apply andb_prop in C; destruct C as [C1 C2];
      apply Nat.leb_le in C1; apply Nat.ltb_lt in C2.
    - (* vector *)
      exists (j + (p - (r * N + j))). split; [lia|]. split; [lia|].
      set (l := p - (r * N + j)).
      destruct mf.
      + right; left. rewrite vacc_from_lane. unfold dot_mf, vmul, vbcast, vload, rowf, colf.
        replace (0 * N + j + l) with (0 * N + (j + l)) by lia.
        apply dot_fma_ext. intros kk _. split; [reflexivity|]. f_equal; lia.
      + left. rewrite vacc_from_lane. unfold dot_rec, vzero.
        apply dot_fma_ext. intros kk _. split; [reflexivity|]. unfold vload, colf. f_equal; lia.
    - (* scalar *)
      exists j. split; [lia|]. split; [lia|].
      destruct mf; [right; left | right; right]; reflexivity.
    - (* masked *)
      rewrite lane_on_make in C3 by (apply Hm; reflexivity). apply Nat.ltb_lt in C3.
      set (l := p - (r * N + j)) in *.
      assert (Hon : lane_on W (make_maska W rem) l = true)
        by (rewrite lane_on_make by (apply Hm; reflexivity); apply Nat.ltb_lt; exact C3).
      exists (j + l). split; [unfold l; lia|]. split; [lia|].
      destruct mf.
      + right; left. rewrite vacc_from_lane. unfold dot_mf, vmul, vbcast, vmaskload, rowf, colf.
        rewrite Hon. replace (0 * N + j + l) with (0 * N + (j + l)) by lia.
        apply dot_fma_ext. intros kk _. split; [reflexivity|]. f_equal; lia.
      + left. rewrite vacc_from_lane. unfold dot_rec, vzero.
        apply dot_fma_ext. intros kk _. split; [reflexivity|]. unfold vmaskload, colf.
        rewrite Hon. f_equal; lia.
  Qed.

  Lemma tile_wr_covers W K N mf (a b : nat -> S) r j k x :
    0 < W -> j <= x < j + cwidth W k -> (forall rem, k = CMask rem -> rem <= W) ->
    covers (tile_wr W K N mf a b r (j, k)) (r * N + x) = true.
  Proof.
    intros HW Hx Hm. unfold covers.
    destruct k as [| | rem]; cbn [tile_wr woff wlen won wval wr_store wr_maskstore wr_store1 cwidth] in *.
    - rewrite andb_true_r. apply andb_true_intro. split; [apply Nat.leb_le | apply Nat.ltb_lt]; lia.
    - rewrite andb_true_r. apply andb_true_intro. split; [apply Nat.leb_le | apply Nat.ltb_lt]; lia.
    - assert (rem <= W) by (apply Hm; reflexivity).
      rewrite lane_on_make by assumption.
      apply andb_true_intro. split; [apply andb_true_intro; split; [apply Nat.leb_le | apply Nat.ltb_lt] | apply Nat.ltb_lt]; lia.
  Qed.

  Lemma divmod_pos p N : 0 < N -> p = p / N * N + p mod N /\ p mod N < N.
  Proof. intros. pose proof (Nat.div_mod p N ltac:(lia)). pose proof (Nat.mod_upper_bound p N ltac:(lia)). lia. Qed.

  (** Law-free theorem for any admissible tiling: every position of the M x N
      result holds a dot recurrence of its row and column; nothing else is written. *)
  Theorem tiled_elements W M K N mf rows cols a b c0 :
    0 < W -> 0 < K -> 0 < N -> rows_ok M rows -> cols_ok W N cols ->
    forall p,
      (p < M * N -> is_dot K (rowf K a (p / N)) (colf N b (p mod N))
                      (run_wrs c0 (tiled_wrs W K N mf rows cols a b) p)) /\
      (M * N <= p -> run_wrs c0 (tiled_wrs W K N mf rows cols a b) p = c0 p).
  Proof.
    intros HW HK HN [Hr1 Hr2] [Hc1 Hc2] p. split.
    - intros Hp.
      apply (run_wrs_pred S (fun p x => is_dot K (rowf K a (p / N)) (colf N b (p mod N)) x)).
      + intros w Hin q Hcov. unfold tiled_wrs in Hin. apply in_flat_map in Hin.
        destruct Hin as [r [Hr Hin]]. apply in_map_iff in Hin. destruct Hin as [[j k] [<- Hjk]].
        destruct (Hc1 j k Hjk) as [Hjr [_ Hm]].
        destruct (tile_wr_value W K N mf a b r j k q HW HK Hjr Hm Hcov) as [x [-> [Hx Hd]]].
        assert (x < N) by lia.
        replace ((r * N + x) / N) with r by (rewrite Nat.div_add_l by lia; rewrite Nat.div_small by lia; lia).
        replace ((r * N + x) mod N) with x
          by (rewrite Nat.add_comm, Nat.mod_add by lia; rewrite Nat.mod_small by lia; reflexivity).
        exact Hd.
      + apply existsb_exists.
        destruct (divmod_pos p N HN) as [Hpe Hpm].
        assert (Hi : p / N < M) by (apply Nat.div_lt_upper_bound; lia).
        destruct (Hc2 (p mod N) Hpm) as [j [k [Hjk Hx]]].
        exists (tile_wr W K N mf a b (p / N) (j, k)). split.
        * unfold tiled_wrs. apply in_flat_map. exists (p / N). split; [apply Hr2; exact Hi|].
          apply in_map. exact Hjk.
        * rewrite Hpe at 2. apply tile_wr_covers; [exact HW | exact Hx | apply (Hc1 j k Hjk)].
    - intros Hp. apply run_wrs_frame with (n := M * N); [|exact Hp].
      intros w Hin q Hcov. unfold tiled_wrs in Hin. apply in_flat_map in Hin.
      destruct Hin as [r [Hr Hin]]. apply in_map_iff in Hin. destruct Hin as [[j k] [<- Hjk]].
      destruct (Hc1 j k Hjk) as [Hjr [_ Hm]].
      destruct (tile_wr_value W K N mf a b r j k q HW HK Hjr Hm Hcov) as [x [-> [Hx _]]].
      assert (r < M) by (apply Hr1; exact Hr). nia.
  Qed.

  (** the tilings the kernels use are admissible *)
  Lemma rows_ok_seq M : rows_ok M (seq 0 M).
  Proof. split; intros r H; [apply in_seq in H; lia | apply in_seq; lia]. Qed.

  Lemma rows_ok_tiles RB R4 M : 0 < RB -> 0 < R4 -> (exists q, RB = q * R4) -> rows_ok M (row_tiles RB R4 M).
  Proof.
    intros H1 H2 H3. split; intros r H; [apply (row_tiles_range RB R4 M r H1 H2 H3 H) | apply (row_tiles_cover RB R4 M r H1 H2 H3 H)].
  Qed.

  Lemma cols_ok_tiles W nb N masked : 0 < W -> 0 < nb -> cols_ok W N (col_tiles W nb N masked).
  Proof.
    intros HW Hnb. split.
    - intros j k Hin. apply (col_tiles_in_range W nb N masked j k HW Hnb Hin).
    - intros x Hx. apply col_tiles_cover; assumption.
  Qed.

  Lemma cols_ok_scalar W N : cols_ok W N (all_scalar_cols N).
  Proof.
    unfold all_scalar_cols. split.
    - intros j k Hin. apply in_map_iff in Hin. destruct Hin as [x [Heq Hx]]. inversion Heq; subst.
      apply in_seq in Hx. simpl. split; [lia|]. split; [lia|]. intros; discriminate.
    - intros x Hx. exists x, CScal. split; [|simpl; lia]. apply in_map_iff. exists x. split; [reflexivity|].
      apply in_seq. lia.
  Qed.

  Lemma smalln_unroll_pos nv : 0 < smalln_unroll nv.
  Proof. unfold smalln_unroll. destruct nv as [|[|[|[|[|?]]]]]; lia. Qed.

  Definition blocks_ok (c : cfg) : Prop :=
    True.

  Lemma num_simd_rows_pos c W M : (outer_block c = 0 \/ 0 < outer_block c) -> 0 < num_simd_rows c W M.
  Proof.
    unfold num_simd_rows. destruct (Nat.eqb_spec (outer_block c) 0); [|lia].
    intros _. destruct (M mod 12 =? 0); [lia|]. destruct (M <? 2 * W); lia.
  Qed.
  Lemma num_simd_cols_pos c W M N : 0 < num_simd_cols c W M N.
  Proof.
    unfold num_simd_cols. destruct (Nat.eqb_spec (inner_block c) 0); [|lia].
    destruct ((N mod (W * 3) =? 0) && (M mod (W * 3) =? 0) && (24 <? N)); lia.
  Qed.

  (** every kernel the ladder can choose, for every configuration *)
  Theorem kernel_elements c t k M K N a b c0 :
    0 < K -> 0 < N ->
    forall p,
      (p < M * N -> is_dot K (rowf K a (p / N)) (colf N b (p mod N))
                      (run_wrs c0 (kernel_wrs c t k M K N a b) p)) /\
      (M * N <= p -> run_wrs c0 (kernel_wrs c t k M K N a b) p = c0 p).
  Proof.
    intros HK HN. pose proof (best_vsize_pos c t N) as HW.
    destruct k; cbn [kernel_wrs]; apply tiled_elements; try assumption; try lia;
      try apply rows_ok_seq; try apply cols_ok_scalar; try (apply cols_ok_tiles; try assumption; try lia).
    - apply rows_ok_tiles; [apply smalln_unroll_pos | lia | exists (smalln_unroll ((N + best_vsize c t N - 1) / best_vsize c t N)); lia].
    - apply rows_ok_tiles; [ | lia | eexists; reflexivity].
      assert (0 < num_simd_rows c (best_vsize c t N) M) by (apply num_simd_rows_pos; lia). lia.
    - apply num_simd_cols_pos.
    - apply rows_ok_tiles; [ | lia | eexists; reflexivity].
      assert (0 < num_simd_rows c (best_vsize c t N) M) by (apply num_simd_rows_pos; lia). lia.
    - apply num_simd_cols_pos.
  Qed.

  (** Stage 1 (law-free): the matrix product as dispatched *)
  Theorem matmul_elements c t M K N a b c0 :
    0 < K -> 0 < N ->
    forall p,
      (p < M * N -> is_dot K (rowf K a (p / N)) (colf N b (p mod N)) (matmul c t M K N a b c0 p)) /\
      (M * N <= p -> matmul c t M K N a b c0 p = c0 p).
  Proof. intros. unfold matmul. apply kernel_elements; assumption. Qed.

  (** Stage 2a: under the ring laws every element is the mathematical sum *)
  Theorem matmul_exact (L : RingLaws S) c t M K N (a b c0 : nat -> S) i j :
    0 < K -> i < M -> j < N ->
    matmul c t M K N a b c0 (i * N + j) = mm_spec M K N a b i j.
  Proof.
    intros HK Hi Hj.
    destruct (matmul_elements c t M K N a b c0 HK ltac:(lia) (i * N + j)) as [H _].
    assert (Hp : i * N + j < M * N) by nia.
    specialize (H Hp).
    replace ((i * N + j) / N) with i in H by (rewrite Nat.div_add_l by lia; rewrite Nat.div_small by lia; lia).
    replace ((i * N + j) mod N) with j in H
      by (rewrite Nat.add_comm, Nat.mod_add by lia; rewrite Nat.mod_small by lia; reflexivity).
    apply (is_dot_sum S L) in H; [|exact HK]. exact H.
  Qed.

  (** configuration independence (C06 corollary) *)
  Corollary matmul_config_independent (L : RingLaws S) c1 t1 c2 t2 M K N (a b c0 c0' : nat -> S) i j :
    0 < K -> i < M -> j < N ->
    matmul c1 t1 M K N a b c0 (i * N + j) = matmul c2 t2 M K N a b c0' (i * N + j).
  Proof. intros. rewrite !matmul_exact by assumption. reflexivity. Qed.
End Proofs.
