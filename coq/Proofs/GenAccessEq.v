(** The index expression of every operand / result access in the matmul kernels and drivers and in
    _transpose, as translated from the source on every run (Gen/GeneratedAccess.v), is the one the
    models are written with (Model/Matmul.v [tile_wr]: row r = i + ii*R + n of A at r*K + k, row k of
    B at k*N + j + v*W, result at r*N + j + v*W; Model/Permute.v [transpose_wrs]: out[(j+jj)*M + i]
    from a[(i+l)*N + j + jj]).  Array ids: 0 = a, 1 = b (out for transpose), 2 = c (pack_a), 3 = pack_out. *)
From Coq Require Import Arith List Lia Bool.
From FastorV Require Import Gen.GeneratedAccess.
Import ListNotations.

Ltac acc_eq :=
  cbv zeta; cbn [map seq app];
  repeat match goal with
         | |- _ :: _ = _ :: _ => apply f_equal2
         | |- (_, _) = (_, _) => apply f_equal2
         end; try reflexivity; try lia.

(* one micro-kernel with C column vectors: loads of B, broadcast of A, stores of C *)
Definition model_kernel_accesses (C W K N R i j ii k n : nat) : list (nat * nat) :=
  map (fun v => (1, k * N + j + v * W)) (seq 0 C) ++ [(0, (i + ii * R + n) * K + k)]
  ++ map (fun v => (2, (i + ii * R + n) * N + j + v * W)) (seq 0 C).

Lemma gen_mmkernel_accesses_eq W M K N R i j ii k n :
  gen_mmkernel1_accesses W M K N R i j ii k n = model_kernel_accesses 1 W K N R i j ii k n /\
  gen_mmkernel2_accesses W M K N R i j ii k n = model_kernel_accesses 2 W K N R i j ii k n /\
  gen_mmkernel3_accesses W M K N R i j ii k n = model_kernel_accesses 3 W K N R i j ii k n /\
  gen_mmkernel4_accesses W M K N R i j ii k n = model_kernel_accesses 4 W K N R i j ii k n /\
  gen_mmkernel5_accesses W M K N R i j ii k n = model_kernel_accesses 5 W K N R i j ii k n /\
  gen_mmkernel_scalar_accesses W M K N R i j ii k n = model_kernel_accesses 1 W K N R i j ii k n /\
  gen_mmkernel_mask0_accesses W M K N R i j ii k n = model_kernel_accesses 1 W K N R i j ii k n /\
  gen_mmkernel_mask1_accesses W M K N R i j ii k n = model_kernel_accesses 1 W K N R i j ii k n.
Proof.
  unfold gen_mmkernel1_accesses, gen_mmkernel2_accesses, gen_mmkernel3_accesses, gen_mmkernel4_accesses, gen_mmkernel5_accesses,
    gen_mmkernel_scalar_accesses, gen_mmkernel_mask0_accesses, gen_mmkernel_mask1_accesses, model_kernel_accesses.
  repeat split; acc_eq.
Qed.

(* code written inline in the drivers: rows i+n (4-row section) and rows n (leftover section) *)
Definition row_acc (K N r j k : nat) : list (nat * nat) := [(0, r * K + k); (1, k * N + j); (2, r * N + j)].
Definition model_mmbase_inline (K N i j k n : nat) : list (nat * nat) :=
  row_acc K N (i + n) j k ++ row_acc K N (i + n) j k
  ++ row_acc K N n j k ++ [(2, n * N + j)] ++ row_acc K N n j k ++ [(2, n * N + j)].
Definition model_mmbase_masked_inline (K N i j k n : nat) : list (nat * nat) :=
  row_acc K N (i + n) j k ++ [(1, k * N + j); (0, (i + n) * K + k); (2, (i + n) * N + j)]
  ++ row_acc K N n j k ++ [(2, n * N + j)] ++ [(1, k * N + j); (0, n * K + k); (2, n * N + j)].

Lemma gen_mmbase_inline_accesses_eq W M K N i j k n :
  gen_mmbase_inline_accesses W M K N i j k n = model_mmbase_inline K N i j k n /\
  gen_mmbase_masked_inline_accesses W M K N i j k n = model_mmbase_masked_inline K N i j k n.
Proof.
  unfold gen_mmbase_inline_accesses, gen_mmbase_masked_inline_accesses, model_mmbase_inline, model_mmbase_masked_inline, row_acc.
  split; acc_eq.
Qed.

Definition model_transpose_avx (W M N i ii j jj v : nat) : list (nat * nat) :=
  [(0, (i + ii) * N + j + v * W); (2, ii * W + v * W); (3, jj * W + v * W); (1, (j + jj) * M + i + v * W);
   (1, (j + jj) * M + i); (0, i * N + j + jj); (1, j * M + i); (0, i * N + j)].
Lemma gen_transpose_accesses_eq W M N i ii j jj v :
  gen_transpose_avx_accesses W M N i ii j jj v = model_transpose_avx W M N i ii j jj v /\
  gen_transpose_plain_accesses M N i j = [(1, j * M + i); (0, i * N + j)].
Proof.
  unfold gen_transpose_avx_accesses, gen_transpose_plain_accesses, model_transpose_avx. split; acc_eq.
Qed.

(** reads and writes of a micro-kernel stay inside the operands (C07): with the block inside the
    matrices - row i + ii*R + n < M, k < K, the C column vectors within the row (j + C*W <= N) -
    the scalar read of A, the W-wide loads of B and the W-wide stores of C are in bounds *)
Lemma kernel_accesses_in_bounds C W M K N R i j ii k n arr idx :
  In (arr, idx) (model_kernel_accesses C W K N R i j ii k n) ->
  i + ii * R + n < M -> k < K -> j + C * W <= N ->
  match arr with 0 => idx < M * K | 1 => idx + W <= K * N | _ => idx + W <= M * N end.
Proof.
  unfold model_kernel_accesses. rewrite !in_app_iff, !in_map_iff. intros H Hr Hk Hj.
  destruct H as [(v & E & Hv) | [[E | []] | (v & E & Hv)]]; inversion E; subst; clear E; try apply in_seq in Hv.
  - assert ((v + 1) * W <= C * W) by (apply Nat.mul_le_mono_r; lia). nia.
  - nia.
  - assert ((v + 1) * W <= C * W) by (apply Nat.mul_le_mono_r; lia). nia.
Qed.

(** and of the transpose: inside a full tile (i + W <= M0 <= M, j + W <= N0 <= N, ii, jj < W, v = 0 with
    the default block sizes) every access of a and out is in bounds; the edge loops likewise *)
Lemma transpose_tile_accesses_in_bounds W M N i ii j jj :
  0 < W -> i + W <= M -> j + W <= N -> ii < W -> jj < W ->
  (i + ii) * N + j + 0 * W + W <= M * N /\ (j + jj) * M + i + 0 * W + W <= N * M.
Proof. intros. split; nia. Qed.

(** * tmatmul micro-kernels (tmatmul.h): same access formulas; the k-range of a kernel is computed at the
    block origin (i,j) from the extents of the whole block: rows unrollOuterloop*numSIMDRows, columns
    numSIMDCols*W (numSIMDCols for the scalar kernel) - the [bt_R], [bt_C] of Model/TMatmul.v *)
Lemma gen_tmkernel_accesses_eq W M K N R i j ii k n :
  gen_tmkernel1_accesses W M K N R i j ii k n = model_kernel_accesses 1 W K N R i j ii k n /\
  gen_tmkernel2_accesses W M K N R i j ii k n = model_kernel_accesses 2 W K N R i j ii k n /\
  gen_tmkernel3_accesses W M K N R i j ii k n = model_kernel_accesses 3 W K N R i j ii k n /\
  gen_tmkernel4_accesses W M K N R i j ii k n = model_kernel_accesses 4 W K N R i j ii k n /\
  gen_tmkernel5_accesses W M K N R i j ii k n = model_kernel_accesses 5 W K N R i j ii k n /\
  gen_tmkernel_scalar_accesses W M K N R i j ii k n = model_kernel_accesses 1 W K N R i j ii k n /\
  gen_tmkernel_mask0_accesses W M K N R i j ii k n = model_kernel_accesses 1 W K N R i j ii k n /\
  gen_tmkernel_mask1_accesses W M K N R i j ii k n = model_kernel_accesses 1 W K N R i j ii k n.
Proof.
  unfold gen_tmkernel1_accesses, gen_tmkernel2_accesses, gen_tmkernel3_accesses, gen_tmkernel4_accesses, gen_tmkernel5_accesses,
    gen_tmkernel_scalar_accesses, gen_tmkernel_mask0_accesses, gen_tmkernel_mask1_accesses, model_kernel_accesses.
  repeat split; acc_eq.
Qed.
Lemma gen_tmkernel_krange_eq W R nr nc :
  gen_tmkernel1_krange W R nr nc = [R * nr; nc * W; R * nr; nc * W] /\ gen_tmkernel2_krange W R nr nc = [R * nr; nc * W; R * nr; nc * W] /\
  gen_tmkernel3_krange W R nr nc = [R * nr; nc * W; R * nr; nc * W] /\ gen_tmkernel4_krange W R nr nc = [R * nr; nc * W; R * nr; nc * W] /\
  gen_tmkernel5_krange W R nr nc = [R * nr; nc * W; R * nr; nc * W] /\ gen_tmkernel_scalar_krange W R nr nc = [R * nr; nc; R * nr; nc] /\
  gen_tmkernel_mask0_krange W R nr nc = [R * nr; nc * W; R * nr; nc * W] /\ gen_tmkernel_mask1_krange W R nr nc = [R * nr; nc * W; R * nr; nc * W].
Proof. repeat split; reflexivity. Qed.

(** * Reductions and predicates (AbstractTensorFunctions.h), structure as translated:
    sum / product / min / max use one and the same operation for the vector update, the scalar tail,
    the horizontal fold and the final combination, seeded with 0 / 1 / numeric max / numeric lowest -
    the shape [reduce op seed W n f] of Model/Reduce.v; the predicates are early-exit loops
    (initial value, triggering element value, value on exit). *)
From FastorV Require Import Model.Reduce.
Lemma gen_reduce_structure :
  gen_reduce_sum = [0; 0; 0; 0] /\ gen_reduce_product = [1; 1; 1; 1] /\ gen_reduce_min = [2; 2; 2; 2] /\ gen_reduce_max = [3; 3; 3; 3].
Proof. repeat split; reflexivity. Qed.

(* an early-exit loop with parameters (init, trigger, onexit) *)
Fixpoint exit_loop (init trig onexit : bool) (f : nat -> bool) (i n : nat) : bool :=
  match n with 0 => init | S n' => if Bool.eqb (f i) trig then onexit else exit_loop init trig onexit f (S i) n' end.
Definition pred_of (skel : list bool) (f : nat -> bool) (n : nat) : bool :=
  match skel with [a; b; c] => exit_loop a b c f 0 n | _ => false end.

Lemma exit_loop_all f : forall n i, exit_loop true false false f i n = all_of_loop f i n.
Proof. induction n as [|n IH]; intros i; simpl; [reflexivity|]. destruct (f i); simpl; [apply IH | reflexivity]. Qed.
Lemma exit_loop_any f : forall n i, exit_loop false true true f i n = any_of_loop f i n.
Proof. induction n as [|n IH]; intros i; simpl; [reflexivity|]. destruct (f i); simpl; [reflexivity | apply IH]. Qed.

(** the translated predicates are the model's; in particular the body of none_of IS the body of any_of *)
Lemma gen_predicates f n :
  pred_of gen_pred_all_of f n = all_of f n /\ pred_of gen_pred_any_of f n = any_of f n /\ pred_of gen_pred_none_of f n = none_of f n.
Proof.
  unfold pred_of, gen_pred_all_of, gen_pred_any_of, gen_pred_none_of, all_of, any_of, none_of.
  repeat split; first [apply exit_loop_all | apply exit_loop_any].
Qed.
Lemma gen_none_of_is_any_of_in_the_source : gen_pred_none_of = gen_pred_any_of.
Proof. reflexivity. Qed.

(** no view class claims alignment: loads and stores through a view never take the alignment-requiring
    path (a view's first element and row pitch are arbitrary) *)
Lemma gen_views_never_aligned : forallb negb gen_views_is_aligned = true /\ length gen_views_is_aligned = 16.
Proof. split; reflexivity. Qed.

(** * tensor/TensorAssignment.h, TensorInplaceOperators.h: every elementwise assignment to a tensor.
    The translator accepts the five trivial_assign*(dst, expression) functions only in the shape the model
    [Model.Expr.assign] is written in (vector loop over [0, ROUND_DOWN(n,W)) step W at &_data[i], scalar
    remainder loop to n at _data[i], one scalar loop for boolean expressions) and reports the operator each of
    the three loops applies; here: all three apply the operator the function is named after, so the single
    [aop] argument of the model stands for all of them. *)
Definition model_trivial_assign_expr : list (nat * nat * nat * nat) := map (fun o => (o, o, o, o)) (seq 0 5).
Lemma gen_trivial_assign_expr_eq : gen_trivial_assign_expr = model_trivial_assign_expr.
Proof. reflexivity. Qed.

(** the same for a number on the right-hand side; the only overload whose loops do not apply the operator it is
    named after is the division by a non-integral number, which broadcasts the reciprocal T(1)/(T)num and
    multiplies (the documented reciprocal-multiply: one extra rounding), and it is restricted to non-integral
    numbers; integral numbers divide *)
Lemma gen_trivial_assign_scalar_ok :
  forallb (fun e : nat * nat * nat * bool * nat => let '(op, vop, sop, recip, restr) := e in
             (vop =? sop) &&
             (if recip then (op =? 4) && (vop =? 3) && (restr =? 2) else (vop =? op))) gen_trivial_assign_scalar = true /\
  map (fun e : nat * nat * nat * bool * nat => let '(op, _, _, _, _) := e in op) gen_trivial_assign_scalar = [0; 1; 2; 3; 4; 4] /\
  existsb (fun e : nat * nat * nat * bool * nat => let '(op, vop, _, recip, restr) := e in (op =? 4) && (vop =? 4) && negb recip && (restr =? 1)) gen_trivial_assign_scalar = true.
Proof. repeat split. Qed.

(** Tensor::operator op= calls assign_op, and assign_op(dst, tensor | number) calls trivial_assign_op: the
    operator is preserved along the chain, each forwards its own argument (checked by the translator), and
    every compound operator is present for expressions and for numbers *)
Lemma gen_tensor_assign_dispatch_ok :
  forallb (fun e : nat * nat * nat => let '(_, op, called) := e in op =? called) gen_tensor_assign_dispatch = true /\
  map (fun e : nat * nat * nat => let '(_, op, _) := e in op) (filter (fun e : nat * nat * nat => let '(k, _, _) := e in k =? 0) gen_tensor_assign_dispatch) = [1; 2; 3; 4; 1; 2; 3; 4] /\
  map (fun e : nat * nat * nat => let '(_, op, _) := e in op) (filter (fun e : nat * nat * nat => let '(k, _, _) := e in k =? 1) gen_tensor_assign_dispatch) = [0; 1; 2; 3; 4; 0; 1; 2; 3; 4].
Proof. repeat split. Qed.

(** * The four arithmetic expression nodes as compiled: expressions/binary_ops/binary_arithmetic_ops.h (the macro
    FASTOR_MAKE_BINARY_ARITHMETIC_OPS expanded by the translator for Add, Sub, Mul) and binary_div_op.h (Div) -
    the definitions expressions.h includes; binary_{add,sub,mul}_op.h are not compiled.
    Every one of the 72 evaluator overloads (4 nodes x {eval, eval_s} x {(i), (i,j)} + {teval, teval_s} x (as),
    each for (expression, expression), (number, expression), (expression, number)) returns
    [left OP right] with OP the node's own operator, the left operand taken from _lhs and the right from _rhs
    (never swapped: the translator only accepts that order), an operand being the converted number exactly in the
    overload selected for a number on that side, and both operands evaluated by the function's own evaluator at
    the function's own arguments - which is what [eval_s] / [eval_v] of Model/Expr.v do at an [EBin] node. *)
Definition binop_node_ok (e : nat * nat * nat * bool * bool * nat * bool * bool * bool) : bool :=
  let '(node, fn, args, gl, gr, op, lnum, rnum, same) := e in
  (op =? node) && Bool.eqb gl lnum && Bool.eqb gr rnum && same && negb (gl && gr).
Definition binop_expected : list (nat * nat * nat * bool * bool) :=
  flat_map (fun node => flat_map (fun fa : nat * nat => flat_map (fun g : bool * bool => [(node, fst fa, snd fa, fst g, snd g)])
              [(false, false); (true, false); (false, true)])
              [(0, 1); (1, 1); (0, 2); (1, 2); (2, 3); (3, 3)]) [1; 2; 3; 4].
Definition binop_key (e : nat * nat * nat * bool * bool * nat * bool * bool * bool) : nat * nat * nat * bool * bool :=
  let '(node, fn, args, gl, gr, _, _, _, _) := e in (node, fn, args, gl, gr).
Definition key_eqb (a b : nat * nat * nat * bool * bool) : bool :=
  let '(a1, a2, a3, a4, a5) := a in let '(b1, b2, b3, b4, b5) := b in
  (a1 =? b1) && (a2 =? b2) && (a3 =? b3) && Bool.eqb a4 b4 && Bool.eqb a5 b5.
Lemma gen_binop_nodes_ok :
  forallb binop_node_ok gen_binop_nodes = true /\
  length gen_binop_nodes = 72 /\
  forallb (fun k => existsb (fun e => key_eqb k (binop_key e)) gen_binop_nodes) binop_expected = true.
Proof. repeat split. Qed.

(** * expressions/unary_ops/unary_math_ops.h: the elementwise math nodes.  One macro defines every node; its six
    evaluators - as translated - apply SIMD_OP in eval / teval and SCALAR_OP in eval_s / teval_s to the operand
    evaluated by the same evaluator at the same position (the [EUn] case of [eval_v] / [eval_s]); and in every
    instantiation the vector operation is the function itself and the scalar operation its std:: namesake
    (unary plus: nothing, unary minus: -, sqrt: Fastor's own sqrts), node names are distinct, and every
    specialised assignment re-applies the operation of the node it is declared for. *)
From Coq Require Import String.
Local Open Scope string_scope.
Lemma gen_unary_node_evaluators_ok :
  gen_unary_node_evaluators = [(0, 0, 0, true); (1, 1, 1, true); (0, 0, 0, true); (1, 1, 1, true); (2, 0, 2, true); (3, 1, 3, true)]%nat.
Proof. reflexivity. Qed.
Definition unary_row_ok (r : string * string * string * string) : bool :=
  let '(fn, simd, scal, st) := r in
  if String.eqb fn "operator+" then String.eqb simd "" && String.eqb scal ""
  else if String.eqb fn "operator-" then String.eqb simd "-" && String.eqb scal "-"
  else String.eqb simd fn && (String.eqb scal ("std::" ++ fn) || (String.eqb fn "sqrt" && String.eqb scal "sqrts")).
Fixpoint distinct (l : list string) : bool :=
  match l with [] => true | x :: t => negb (existsb (String.eqb x) t) && distinct t end.
Lemma gen_unary_nodes_ok :
  forallb unary_row_ok gen_unary_nodes = true /\
  distinct (map (fun r : string * string * string * string => let '(fn, _, _, _) := r in fn) gen_unary_nodes) = true /\
  distinct (map (fun r : string * string * string * string => let '(_, _, _, st) := r in st) gen_unary_nodes) = true /\
  (30 <= List.length gen_unary_nodes)%nat /\
  forallb (fun a : string * string * string => let '(op, name, kind) := a in
             existsb (fun r : string * string * string * string => let '(_, simd, _, st) := r in String.eqb st name && String.eqb simd op) gen_unary_nodes)
          gen_unary_node_assignments = true.
Proof. repeat split. vm_compute. repeat constructor. Qed.
Local Close Scope string_scope.

(** * The comparison / logical nodes (binary_cmp_ops.h: one macro, eight instantiations) and the free functions
    that build the arithmetic and comparison nodes.  Every evaluator overload of the comparison macro returns
    [left OP right] with the macro's own OP (the translator accepts nothing else), left from _lhs, right from
    _rhs, a number exactly where selected for one, both sides through the function's own evaluator; each
    instantiation pairs an operator with its node name; and every [operator OP(l, r)] builds its node from
    (l, r) in that order. *)
Definition cmp_eval_ok (e : nat * nat * bool * bool * bool * bool * bool) : bool :=
  let '(fn, args, gl, gr, lnum, rnum, same) := e in Bool.eqb gl lnum && Bool.eqb gr rnum && same && negb (gl && gr).
Definition cmp_key (e : nat * nat * bool * bool * bool * bool * bool) : nat * nat * nat * bool * bool :=
  let '(fn, args, gl, gr, _, _, _) := e in (0, fn, args, gl, gr).
Lemma gen_cmp_nodes_ok :
  forallb cmp_eval_ok gen_cmp_node_evaluators = true /\
  forallb (fun k : nat * nat * nat * bool * bool => let '(_, fn, args, gl, gr) := k in
             existsb (fun e => key_eqb (0, fn, args, gl, gr) (cmp_key e)) gen_cmp_node_evaluators)
          (filter (fun k : nat * nat * nat * bool * bool => let '(node, _, _, _, _) := k in node =? 1) binop_expected) = true /\
  List.length gen_cmp_node_evaluators = 18 /\
  gen_cmp_nodes = [("==", "EQ"); ("!=", "NEQ"); ("<", "LT"); (">", "GT"); ("<=", "LE"); (">=", "GE"); ("&&", "AND"); ("||", "OR")]%string /\
  forallb (fun f : bool * bool * bool => let '(ln, rn, ordered) := f in ordered && negb (ln && rn)) (gen_cmp_functions ++ gen_binop_functions) = true /\
  List.length gen_cmp_functions = 4 /\ List.length gen_binop_functions = 8.
Proof. repeat split. Qed.

(** * expressions/linalg_ops: how a lazy linear-algebra node is assigned (C09).
    Unary nodes (trans, ctrans, adj, cof, inv): the translator accepts only "evaluate the operand once; plain
    assignment computes straight into dst; a compound assignment computes into a fresh local and applies
    trivial_assign_op(dst, local)"; here: the operator applied is the one the function is named after, for all
    5 x 5 functions.  Products A % B: operands in order, an operand is copied into a tensor first exactly when
    the overload is selected for a non-tensor, and the update the chosen dispatcher performs
    (out = P, out = alpha P + beta out, out *= P, out /= P) is the operator's update of the old value by the
    product P - for every old value and every P. *)
From Coq Require Import ZArith.
Lemma gen_lazy_unary_assign_ok :
  forallb (fun e : nat * nat * nat => let '(_, op, called) := e in op =? called) gen_lazy_unary_assign = true /\
  map (fun e : nat * nat * nat => let '(node, op, _) := e in (node, op)) gen_lazy_unary_assign
  = flat_map (fun node => map (fun op => (node, op)) (seq 0 5)) (seq 0 5).
Proof. split; reflexivity. Qed.

Definition op_update (op : nat) (old p : Z) : Z :=
  match op with 0 => p | 1 => (old + p)%Z | 2 => (old - p)%Z | 3 => (old * p)%Z | _ => Z.quot old p end.
Definition dispatcher_update (disp : nat) (alpha beta old p : Z) : Z :=
  match disp with 0 => p | 1 => (alpha * p + beta * old)%Z | 2 => (old * p)%Z | _ => Z.quot old p end.
Definition lazy_matmul_entry_ok (e : nat * bool * bool * bool * bool * nat * Z * Z) : Prop :=
  let '(op, lt, rt, sa, sb, disp, alpha, beta) := e in
  sa = negb lt /\ sb = negb rt /\ forall old p : Z, dispatcher_update disp alpha beta old p = op_update op old p.
Lemma gen_lazy_matmul_assign_ok :
  Forall lazy_matmul_entry_ok gen_lazy_matmul_assign /\
  map (fun e : nat * bool * bool * bool * bool * nat * Z * Z => let '(op, lt, rt, _, _, _, _, _) := e in (op, lt, rt)) gen_lazy_matmul_assign
  = flat_map (fun op => map (fun g : bool * bool => (op, fst g, snd g)) [(true, true); (false, true); (true, false); (false, false)]) (seq 0 5).
Proof.
  split; [| reflexivity].
  unfold gen_lazy_matmul_assign.
  repeat (apply Forall_cons; [repeat split; intros old p; cbn [dispatcher_update op_update]; ring |]).
  apply Forall_nil.
Qed.

(** * simd_vector/simd_vector_{double,float}.h: the arithmetic operators of the sse / avx / avx512 floating vector
    types (member compound forms with a number, a register or a vector; free functions vector op vector, vector op
    number, number op vector; unary plus / minus).  Every one - as translated - issues exactly one arithmetic
    intrinsic (besides the broadcast set1), of the operator's own kind (unary minus: neg, unary plus: none), of the
    vector width of the type it is defined for, and with the suffix of the element type.  That the intrinsic itself
    is lane-wise is Intel's specification (trusted; observed by the C08 lane correspondence). *)
Definition simd_fp_operator_ok (e : nat * nat * bool * nat * nat * nat * bool) : bool :=
  let '(ty, op, compound, w, iw, stem, suffix_ok) := e in
  suffix_ok &&
  ((stem =? op) && (iw =? w)
   || negb compound && (op =? 2) && (stem =? 5) && (iw =? w)        (* unary minus *)
   || negb compound && (op =? 1) && (stem =? 0) && (iw =? 0)).       (* unary plus *)
Lemma gen_simd_fp_operators_ok :
  forallb simd_fp_operator_ok gen_simd_fp_operators = true /\
  (* per element type, operator and width: the three compound forms and the three binary free functions are all present *)
  forallb (fun k : nat * nat * nat => let '(ty, op, w) := k in
     (3 <=? List.length (filter (fun e : nat * nat * bool * nat * nat * nat * bool => let '(t, o, c, w', _, s, _) := e in (t =? ty) && (o =? op) && c && (w' =? w) && (s =? op)) gen_simd_fp_operators)) &&
     (3 <=? List.length (filter (fun e : nat * nat * bool * nat * nat * nat * bool => let '(t, o, c, w', _, s, _) := e in (t =? ty) && (o =? op) && negb c && (w' =? w) && (s =? op)) gen_simd_fp_operators)))
    (flat_map (fun ty => flat_map (fun op => map (fun w => (ty, op, w)) [1; 2; 3]) [1; 2; 3; 4]) [0; 1]) = true.
Proof. split; vm_compute; reflexivity. Qed.

(** * Three-tensor networks (network_contraction.h extractor_contract_3, opmin_meta.h triplet_flop_cost): each
    branch of which_variant - as translated - is a pairwise order: the first einsum contracts two of the tensors
    under their own index lists, its result is given the index list resulting_index_k that the cost model defines
    from that same pair, and the second einsum contracts it with the third tensor under the third index list; the
    three branches are the three pairs.  (That any pairwise order gives the same result is the C15 theorem.) *)
Definition network3_ok (e : nat * (nat * nat) * (nat * nat) * nat * (nat * nat) * nat * nat * bool) : bool :=
  let '(v, (ia, ib), (oa, ob), k, (ka, kb), ic, oc, _) := e in
  (ia =? oa) && (ib =? ob) && (k =? v) && (ka =? ia) && (kb =? ib) && (ic =? oc) &&
  negb (ic =? ia) && negb (ic =? ib) && (ia <? ib) && (ic <? 3) && (ib <? 3).
Lemma gen_network3_ok :
  forallb network3_ok gen_network3 = true /\
  map (fun e : nat * (nat * nat) * (nat * nat) * nat * (nat * nat) * nat * nat * bool => let '(v, p, _, _, _, _, _, _) := e in (v, p)) gen_network3
  = [(0, (0, 1)); (1, (0, 2)); (2, (1, 2))].
Proof. split; reflexivity. Qed.

(** * simd_vector/simd_vector_*.h: every alignment-requiring load / store intrinsic of the six SIMD vector class
    files - as translated - sits under `if (Aligned)`, in the else of `if (!Aligned)`, or inside aligned_load /
    aligned_store (which only is_aligned() callers reach): none is unguarded.  (The helper functions of extintrin.h
    are not part of this census.) *)
Lemma gen_simd_aligned_sites_ok :
  forallb (fun e : nat * nat => negb (snd e =? 0)) gen_simd_aligned_sites = true /\ 120 <= List.length gen_simd_aligned_sites.
Proof. split; [reflexivity | vm_compute; repeat constructor]. Qed.

(** the masked loads / stores, which the matmul remainder kernels apply to row tails that are not vector aligned,
    default to the unaligned form in every class *)
Lemma gen_simd_aligned_defaults_ok :
  forallb (fun e : nat * bool * bool => let '(_, masked, dflt) := e in if masked then negb dflt else true) gen_simd_aligned_defaults = true /\
  12 <= List.length (filter (fun e : nat * bool * bool => let '(_, masked, _) := e in masked) gen_simd_aligned_defaults).
Proof. split; [reflexivity | vm_compute; repeat constructor]. Qed.
