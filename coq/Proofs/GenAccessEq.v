(** The index expression of every operand / result access in the matmul kernels and drivers and in
    _transpose, as translated from the source on every run (Gen/GeneratedAccess.v), is the one the
    models are written with (Model/Matmul.v [tile_wr]: row r = i + ii*R + n of A at r*K + k, row k of
    B at k*N + j + v*W, result at r*N + j + v*W; Model/Permute.v [transpose_wrs]: out[(j+jj)*M + i]
    from a[(i+l)*N + j + jj]).  Array ids: 0 = a, 1 = b (out for transpose), 2 = c (pack_a), 3 = pack_out. *)
From Coq Require Import Arith List Lia.
From FastorV Require Import Gen.GeneratedAccess.
Import ListNotations.

Ltac acc_eq :=
  cbv zeta; cbn [map seq app];
  repeat match goal with
         | |- _ :: _ = _ :: _ => apply f_equal2
         | |- (_, _) = (_, _) => apply f_equal2
         end; try reflexivity; try lia.

(* one micro-kernel with C column vectors: loads of B, broadcast of A, stores of C *)
Definition model_kernel_accesses (C W K N R i j ii k n : nat) : list (nat * nat) :=
  map (fun v => (1, k * N + j + v * W)) (seq 0 C) ++ [(0, (i + ii * R + n) * K + k)]
  ++ map (fun v => (2, (i + ii * R + n) * N + j + v * W)) (seq 0 C).

Lemma gen_mmkernel_accesses_eq W M K N R i j ii k n :
  gen_mmkernel1_accesses W M K N R i j ii k n = model_kernel_accesses 1 W K N R i j ii k n /\
  gen_mmkernel2_accesses W M K N R i j ii k n = model_kernel_accesses 2 W K N R i j ii k n /\
  gen_mmkernel3_accesses W M K N R i j ii k n = model_kernel_accesses 3 W K N R i j ii k n /\
  gen_mmkernel4_accesses W M K N R i j ii k n = model_kernel_accesses 4 W K N R i j ii k n /\
  gen_mmkernel5_accesses W M K N R i j ii k n = model_kernel_accesses 5 W K N R i j ii k n /\
  gen_mmkernel_scalar_accesses W M K N R i j ii k n = model_kernel_accesses 1 W K N R i j ii k n /\
  gen_mmkernel_mask0_accesses W M K N R i j ii k n = model_kernel_accesses 1 W K N R i j ii k n /\
  gen_mmkernel_mask1_accesses W M K N R i j ii k n = model_kernel_accesses 1 W K N R i j ii k n.
Proof.
  unfold gen_mmkernel1_accesses, gen_mmkernel2_accesses, gen_mmkernel3_accesses, gen_mmkernel4_accesses, gen_mmkernel5_accesses,
    gen_mmkernel_scalar_accesses, gen_mmkernel_mask0_accesses, gen_mmkernel_mask1_accesses, model_kernel_accesses.
  repeat split; acc_eq.
Qed.

(* code written inline in the drivers: rows i+n (4-row section) and rows n (leftover section) *)
Definition row_acc (K N r j k : nat) : list (nat * nat) := [(0, r * K + k); (1, k * N + j); (2, r * N + j)].
Definition model_mmbase_inline (K N i j k n : nat) : list (nat * nat) :=
  row_acc K N (i + n) j k ++ row_acc K N (i + n) j k
  ++ row_acc K N n j k ++ [(2, n * N + j)] ++ row_acc K N n j k ++ [(2, n * N + j)].
Definition model_mmbase_masked_inline (K N i j k n : nat) : list (nat * nat) :=
  row_acc K N (i + n) j k ++ [(1, k * N + j); (0, (i + n) * K + k); (2, (i + n) * N + j)]
  ++ row_acc K N n j k ++ [(2, n * N + j)] ++ [(1, k * N + j); (0, n * K + k); (2, n * N + j)].

Lemma gen_mmbase_inline_accesses_eq W M K N i j k n :
  gen_mmbase_inline_accesses W M K N i j k n = model_mmbase_inline K N i j k n /\
  gen_mmbase_masked_inline_accesses W M K N i j k n = model_mmbase_masked_inline K N i j k n.
Proof.
  unfold gen_mmbase_inline_accesses, gen_mmbase_masked_inline_accesses, model_mmbase_inline, model_mmbase_masked_inline, row_acc.
  split; acc_eq.
Qed.

Definition model_transpose_avx (W M N i ii j jj v : nat) : list (nat * nat) :=
  [(0, (i + ii) * N + j + v * W); (2, ii * W + v * W); (3, jj * W + v * W); (1, (j + jj) * M + i + v * W);
   (1, (j + jj) * M + i); (0, i * N + j + jj); (1, j * M + i); (0, i * N + j)].
Lemma gen_transpose_accesses_eq W M N i ii j jj v :
  gen_transpose_avx_accesses W M N i ii j jj v = model_transpose_avx W M N i ii j jj v /\
  gen_transpose_plain_accesses M N i j = [(1, j * M + i); (0, i * N + j)].
Proof.
  unfold gen_transpose_avx_accesses, gen_transpose_plain_accesses, model_transpose_avx. split; acc_eq.
Qed.

(** reads and writes of a micro-kernel stay inside the operands (C07): with the block inside the
    matrices - row i + ii*R + n < M, k < K, the C column vectors within the row (j + C*W <= N) -
    the scalar read of A, the W-wide loads of B and the W-wide stores of C are in bounds *)
Lemma kernel_accesses_in_bounds C W M K N R i j ii k n arr idx :
  In (arr, idx) (model_kernel_accesses C W K N R i j ii k n) ->
  i + ii * R + n < M -> k < K -> j + C * W <= N ->
  match arr with 0 => idx < M * K | 1 => idx + W <= K * N | _ => idx + W <= M * N end.
Proof.
  unfold model_kernel_accesses. rewrite !in_app_iff, !in_map_iff. intros H Hr Hk Hj.
  destruct H as [(v & E & Hv) | [[E | []] | (v & E & Hv)]]; inversion E; subst; clear E; try apply in_seq in Hv.
  - assert ((v + 1) * W <= C * W) by (apply Nat.mul_le_mono_r; lia). nia.
  - nia.
  - assert ((v + 1) * W <= C * W) by (apply Nat.mul_le_mono_r; lia). nia.
Qed.

(** and of the transpose: inside a full tile (i + W <= M0 <= M, j + W <= N0 <= N, ii, jj < W, v = 0 with
    the default block sizes) every access of a and out is in bounds; the edge loops likewise *)
Lemma transpose_tile_accesses_in_bounds W M N i ii j jj :
  0 < W -> i + W <= M -> j + W <= N -> ii < W -> jj < W ->
  (i + ii) * N + j + 0 * W + W <= M * N /\ (j + jj) * M + i + 0 * W + W <= N * M.
Proof. intros. split; nia. Qed.

(** * tmatmul micro-kernels (tmatmul.h): same access formulas; the k-range of a kernel is computed at the
    block origin (i,j) from the extents of the whole block: rows unrollOuterloop*numSIMDRows, columns
    numSIMDCols*W (numSIMDCols for the scalar kernel) - the [bt_R], [bt_C] of Model/TMatmul.v *)
Lemma gen_tmkernel_accesses_eq W M K N R i j ii k n :
  gen_tmkernel1_accesses W M K N R i j ii k n = model_kernel_accesses 1 W K N R i j ii k n /\
  gen_tmkernel2_accesses W M K N R i j ii k n = model_kernel_accesses 2 W K N R i j ii k n /\
  gen_tmkernel3_accesses W M K N R i j ii k n = model_kernel_accesses 3 W K N R i j ii k n /\
  gen_tmkernel4_accesses W M K N R i j ii k n = model_kernel_accesses 4 W K N R i j ii k n /\
  gen_tmkernel5_accesses W M K N R i j ii k n = model_kernel_accesses 5 W K N R i j ii k n /\
  gen_tmkernel_scalar_accesses W M K N R i j ii k n = model_kernel_accesses 1 W K N R i j ii k n /\
  gen_tmkernel_mask0_accesses W M K N R i j ii k n = model_kernel_accesses 1 W K N R i j ii k n /\
  gen_tmkernel_mask1_accesses W M K N R i j ii k n = model_kernel_accesses 1 W K N R i j ii k n.
Proof.
  unfold gen_tmkernel1_accesses, gen_tmkernel2_accesses, gen_tmkernel3_accesses, gen_tmkernel4_accesses, gen_tmkernel5_accesses,
    gen_tmkernel_scalar_accesses, gen_tmkernel_mask0_accesses, gen_tmkernel_mask1_accesses, model_kernel_accesses.
  repeat split; acc_eq.
Qed.
Lemma gen_tmkernel_krange_eq W R nr nc :
  gen_tmkernel1_krange W R nr nc = [R * nr; nc * W; R * nr; nc * W] /\ gen_tmkernel2_krange W R nr nc = [R * nr; nc * W; R * nr; nc * W] /\
  gen_tmkernel3_krange W R nr nc = [R * nr; nc * W; R * nr; nc * W] /\ gen_tmkernel4_krange W R nr nc = [R * nr; nc * W; R * nr; nc * W] /\
  gen_tmkernel5_krange W R nr nc = [R * nr; nc * W; R * nr; nc * W] /\ gen_tmkernel_scalar_krange W R nr nc = [R * nr; nc; R * nr; nc] /\
  gen_tmkernel_mask0_krange W R nr nc = [R * nr; nc * W; R * nr; nc * W] /\ gen_tmkernel_mask1_krange W R nr nc = [R * nr; nc * W; R * nr; nc * W].
Proof. repeat split; reflexivity. Qed.

(** * Reductions and predicates (AbstractTensorFunctions.h), structure as translated:
    sum / product / min / max use one and the same operation for the vector update, the scalar tail,
    the horizontal fold and the final combination, seeded with 0 / 1 / numeric max / numeric lowest -
    the shape [reduce op seed W n f] of Model/Reduce.v; the predicates are early-exit loops
    (initial value, triggering element value, value on exit). *)
From FastorV Require Import Model.Reduce.
Lemma gen_reduce_structure :
  gen_reduce_sum = [0; 0; 0; 0] /\ gen_reduce_product = [1; 1; 1; 1] /\ gen_reduce_min = [2; 2; 2; 2] /\ gen_reduce_max = [3; 3; 3; 3].
Proof. repeat split; reflexivity. Qed.

(* an early-exit loop with parameters (init, trigger, onexit) *)
Fixpoint exit_loop (init trig onexit : bool) (f : nat -> bool) (i n : nat) : bool :=
  match n with 0 => init | S n' => if Bool.eqb (f i) trig then onexit else exit_loop init trig onexit f (S i) n' end.
Definition pred_of (skel : list bool) (f : nat -> bool) (n : nat) : bool :=
  match skel with [a; b; c] => exit_loop a b c f 0 n | _ => false end.

Lemma exit_loop_all f : forall n i, exit_loop true false false f i n = all_of_loop f i n.
Proof. induction n as [|n IH]; intros i; simpl; [reflexivity|]. destruct (f i); simpl; [apply IH | reflexivity]. Qed.
Lemma exit_loop_any f : forall n i, exit_loop false true true f i n = any_of_loop f i n.
Proof. induction n as [|n IH]; intros i; simpl; [reflexivity|]. destruct (f i); simpl; [reflexivity | apply IH]. Qed.

(** the translated predicates are the model's; in particular the body of none_of IS the body of any_of *)
Lemma gen_predicates f n :
  pred_of gen_pred_all_of f n = all_of f n /\ pred_of gen_pred_any_of f n = any_of f n /\ pred_of gen_pred_none_of f n = none_of f n.
Proof.
  unfold pred_of, gen_pred_all_of, gen_pred_any_of, gen_pred_none_of, all_of, any_of, none_of.
  repeat split; first [apply exit_loop_all | apply exit_loop_any].
Qed.
Lemma gen_none_of_is_any_of_in_the_source : gen_pred_none_of = gen_pred_any_of.
Proof. reflexivity. Qed.

(** no view class claims alignment: loads and stores through a view never take the alignment-requiring
    path (a view's first element and row pitch are arbitrary) *)
Lemma gen_views_never_aligned : forallb negb gen_views_is_aligned = true /\ length gen_views_is_aligned = 16.
Proof. split; reflexivity. Qed.
