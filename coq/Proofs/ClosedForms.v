(** The closed-form kernels of backend/{determinant,adjoint,cofactor,inverse}.h for
    n = 2, 3, 4, as translated from the C++ source on every run (Gen/GeneratedLinalg.v),
    satisfy the adjugate identities over every commutative ring, and the inverse
    identities over every field:
        A * adj(A) = adj(A) * A = det(A) * I,   cof(A) = adj(A)^T,
        det(A) <> 0  ->  A * inv(A) = inv(A) * A = I.
    The proofs are polynomial identities checked by [ring] on the translated terms. *)
From Coq Require Import Arith List Lia Ring.
From FastorV Require Import Base.Scalar Base.Field Base.BigSum Gen.GeneratedLinalg.
Import ListNotations.

Section ClosedForms.
  Variable S : Scalar.
  Hypothesis L : RingLaws S.

  Lemma S_ring_theory : ring_theory (s0 S) (s1 S) (sadd S) (smul S) (ssub S) (sneg S) eq.
  Proof.
    constructor; intros.
    - apply (add_0_l S L).
    - apply (add_comm S L).
    - apply (add_assoc S L).
    - apply (mul_1_l S L).
    - apply (mul_comm S L).
    - apply (mul_assoc S L).
    - apply (distr_l S L).
    - apply (sub_def S L).
    - apply (neg_def S L).
  Qed.
  Add Ring SRing : S_ring_theory.

  (** (A*B)(i,j) for row-major n x n buffers *)
  Definition mm (n : nat) (A B : nat -> S) (i j : nat) : S :=
    sum_n (fun k => smul S (A (i * n + k)) (B (k * n + j))) n.
  Definition delta (i j : nat) (d : S) : S := if i =? j then d else s0 S.

  Ltac cases2 i j := destruct i as [|[|i]]; try lia; destruct j as [|[|j]]; try lia.
  Ltac cases3 i j := destruct i as [|[|[|i]]]; try lia; destruct j as [|[|[|j]]]; try lia.
  Ltac cases4 i j := destruct i as [|[|[|[|i]]]]; try lia; destruct j as [|[|[|[|j]]]]; try lia.
  Ltac crunch := unfold mm, delta, sum_n, sum_from; cbn [fold_left seq Nat.eqb Nat.mul Nat.add]; cbv zeta; ring.

  (** ** adjugate identities *)
  Theorem adj2_right A i j : i < 2 -> j < 2 -> mm 2 A (gen_adjoint2 S A) i j = delta i j (gen_det2 S A).
  Proof. intros Hi Hj. cases2 i j; unfold gen_adjoint2, gen_det2; crunch. Qed.
  Theorem adj2_left A i j : i < 2 -> j < 2 -> mm 2 (gen_adjoint2 S A) A i j = delta i j (gen_det2 S A).
  Proof. intros Hi Hj. cases2 i j; unfold gen_adjoint2, gen_det2; crunch. Qed.
  Theorem adj3_right A i j : i < 3 -> j < 3 -> mm 3 A (gen_adjoint3 S A) i j = delta i j (gen_det3 S A).
  Proof. intros Hi Hj. cases3 i j; unfold gen_adjoint3, gen_det3; crunch. Qed.
  Theorem adj3_left A i j : i < 3 -> j < 3 -> mm 3 (gen_adjoint3 S A) A i j = delta i j (gen_det3 S A).
  Proof. intros Hi Hj. cases3 i j; unfold gen_adjoint3, gen_det3; crunch. Qed.
  Theorem adj4_right A i j : i < 4 -> j < 4 -> mm 4 A (gen_adjoint4 S A) i j = delta i j (gen_det4 S A).
  Proof. intros Hi Hj. cases4 i j; unfold gen_adjoint4, gen_det4; crunch. Qed.
  Theorem adj4_left A i j : i < 4 -> j < 4 -> mm 4 (gen_adjoint4 S A) A i j = delta i j (gen_det4 S A).
  Proof. intros Hi Hj. cases4 i j; unfold gen_adjoint4, gen_det4; crunch. Qed.

  (** ** the cofactor matrix is the transpose of the adjugate *)
  Theorem cof2_adj A i j : i < 2 -> j < 2 -> gen_cofactor2 S A (i * 2 + j) = gen_adjoint2 S A (j * 2 + i).
  Proof. intros Hi Hj. cases2 i j; unfold gen_cofactor2, gen_adjoint2; cbn [Nat.mul Nat.add]; cbv zeta; ring. Qed.
  Theorem cof3_adj A i j : i < 3 -> j < 3 -> gen_cofactor3 S A (i * 3 + j) = gen_adjoint3 S A (j * 3 + i).
  Proof. intros Hi Hj. cases3 i j; unfold gen_cofactor3, gen_adjoint3; cbn [Nat.mul Nat.add]; cbv zeta; ring. Qed.
  Theorem cof4_adj A i j : i < 4 -> j < 4 -> gen_cofactor4 S A (i * 4 + j) = gen_adjoint4 S A (j * 4 + i).
  Proof. intros Hi Hj. cases4 i j; unfold gen_cofactor4, gen_adjoint4; cbn [Nat.mul Nat.add]; cbv zeta; ring. Qed.
End ClosedForms.

Section ClosedInverse.
  Variable S : Scalar.
  Hypothesis F : FieldLaws S.
  Let L := f_ring S F.
  Add Ring SRing2 : (S_ring_theory S L).

  Lemma recip_mul (d : S) : d <> s0 S -> smul S d (sdiv S (s1 S) d) = s1 S.
  Proof. intros Hd. rewrite (mul_comm S L). apply (div_mul S F); exact Hd. Qed.

  Ltac cases2 i j := destruct i as [|[|i]]; try lia; destruct j as [|[|j]]; try lia.
  Ltac cases3 i j := destruct i as [|[|[|i]]]; try lia; destruct j as [|[|[|j]]]; try lia.
  Ltac cases4 i j := destruct i as [|[|[|[|i]]]]; try lia; destruct j as [|[|[|[|j]]]]; try lia.

  (** the determinant computed inside _inverse (expansion along the first row of the
      adjugate it has just formed) is the one of determinant.h; the result is adj/det *)
  Ltac norm_det gdet :=
    match goal with |- context [sdiv S (s1 S) ?e] =>
      let Hd := fresh "Hd" in
      assert (Hd : e = gdet) by (cbv [gen_det2 gen_det3 gen_det4]; cbv zeta; ring); rewrite Hd; clear Hd end.

  Ltac inv_case gdet Hdet :=
    unfold mm, delta, sum_n, sum_from; cbn [fold_left seq Nat.eqb Nat.mul Nat.add]; cbv zeta;
    norm_det gdet;
    let r := fresh "r" in
    match goal with |- context [sdiv S (s1 S) ?e] => set (r := sdiv S (s1 S) e) end;
    first [ (* off-diagonal: the polynomial vanishes identically *) ring
          | (* diagonal: (det) * r = 1 *)
            transitivity (smul S gdet r); [cbv [gen_det2 gen_det3 gen_det4]; ring | exact (recip_mul gdet Hdet)] ].

  Theorem inv2_right A i j : gen_det2 S A <> s0 S -> i < 2 -> j < 2 ->
    mm S 2 A (gen_inverse2 S A) i j = delta S i j (s1 S).
  Proof. intros Hdet Hi Hj. cases2 i j; unfold gen_inverse2, gen_det2 in *; inv_case (gen_det2 S A) Hdet. Qed.
  Theorem inv2_left A i j : gen_det2 S A <> s0 S -> i < 2 -> j < 2 ->
    mm S 2 (gen_inverse2 S A) A i j = delta S i j (s1 S).
  Proof. intros Hdet Hi Hj. cases2 i j; unfold gen_inverse2, gen_det2 in *; inv_case (gen_det2 S A) Hdet. Qed.
  Theorem inv3_right A i j : gen_det3 S A <> s0 S -> i < 3 -> j < 3 ->
    mm S 3 A (gen_inverse3 S A) i j = delta S i j (s1 S).
  Proof. intros Hdet Hi Hj. cases3 i j; unfold gen_inverse3, gen_det3 in *; inv_case (gen_det3 S A) Hdet. Qed.
  Theorem inv3_left A i j : gen_det3 S A <> s0 S -> i < 3 -> j < 3 ->
    mm S 3 (gen_inverse3 S A) A i j = delta S i j (s1 S).
  Proof. intros Hdet Hi Hj. cases3 i j; unfold gen_inverse3, gen_det3 in *; inv_case (gen_det3 S A) Hdet. Qed.
  Theorem inv4_right A i j : gen_det4 S A <> s0 S -> i < 4 -> j < 4 ->
    mm S 4 A (gen_inverse4 S A) i j = delta S i j (s1 S).
  Proof. intros Hdet Hi Hj. cases4 i j; unfold gen_inverse4, gen_det4 in *; inv_case (gen_det4 S A) Hdet. Qed.
  Theorem inv4_left A i j : gen_det4 S A <> s0 S -> i < 4 -> j < 4 ->
    mm S 4 (gen_inverse4 S A) A i j = delta S i j (s1 S).
  Proof. intros Hdet Hi Hj. cases4 i j; unfold gen_inverse4, gen_det4 in *; inv_case (gen_det4 S A) Hdet. Qed.
End ClosedInverse.

(** the translated determinants are the Laplace expansion (over Z, where the hand-written
    models of Model/Reduce.v live) *)
From Coq Require Import ZArith.
From FastorV Require Import Model.Reduce Proofs.ReduceProofs.
Lemma gen_det2_spec a : gen_det2 ZS a = det_spec 2 a.
Proof. rewrite <- det2_ok. unfold gen_det2, det2, ZS. cbn [sadd smul ssub sneg T]. ring. Qed.
Lemma gen_det3_spec a : gen_det3 ZS a = det_spec 3 a.
Proof. rewrite <- det3_ok. unfold gen_det3, det3, ZS. cbn [sadd smul ssub sneg T]. ring. Qed.
Lemma gen_det4_spec a : gen_det4 ZS a = det_spec 4 a.
Proof. rewrite <- det4_ok. unfold gen_det4, det4, ZS. cbn [sadd smul ssub sneg T]. ring. Qed.

(** the recursive block inversions (general, upper triangular, unit lower triangular) of unary_inv_op.h: in every
    size class, as translated, the split point N satisfies 0 < N < M - both diagonal blocks are non-empty and
    strictly smaller, so the recursion is well founded and the block identities (SchurProofs, TriBlockProofs) apply;
    the classes tile (4, 256] without gaps *)
From Coq Require Import Lia.
Ltac Zify.zify_post_hook ::= Z.div_mod_to_equations.
Lemma split_ok B M : 0 < B -> 2 * B < M -> 0 < M / B * B / 2 < M.
Proof.
  intros HB HM.
  assert (Hq : M / B * B <= M) by (rewrite Nat.mul_comm; apply Nat.mul_div_le; lia).
  assert (Hq2 : 2 <= M / B) by (apply Nat.div_le_lower_bound; lia).
  assert (H2 : 2 * B <= M / B * B) by nia.
  set (x := M / B * B) in *. clearbody x.
  pose proof (Nat.div_mod x 2 ltac:(lia)). pose proof (Nat.mod_upper_bound x 2 ltac:(lia)). lia.
Qed.
Lemma gen_inverse_splits_ok M :
  Forall (fun '(disp, lo, hi, n) => lo < M <= hi -> 0 < n < M) (gen_inverse_splits M) /\
  map (fun '(disp, lo, hi, n) => (disp, lo, hi)) (gen_inverse_splits M) =
  flat_map (fun disp => [(disp, 4, 8); (disp, 8, 16); (disp, 16, 32); (disp, 32, 64); (disp, 64, 128); (disp, 128, 256)]) [1; 2; 0].
Proof.
  split; [|reflexivity].
  unfold gen_inverse_splits. repeat (apply Forall_cons; [intros H; first [lia | apply split_ok; lia]|]). apply Forall_nil.
Qed.
