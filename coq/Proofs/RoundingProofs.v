(** Forward rounding-error bound of the matrix product over the floating scalar
    [FS rnd fused] (Base/Rounding.v): the law-free stage-1 theorem (every element is a
    dot-product accumulation recurrence, for every configuration / kernel / shape) holds
    over floats verbatim; with the standard model of rounding each recurrence is within
    ((1+u)^K - 1) * sum_k |A(i,k) B(k,j)| of the exact sum. *)
From Coq Require Import Reals Lra Lia List Arith.
From FastorV Require Import Base.Scalar Base.Mem Base.BigSum Base.Rounding Model.Cfg Model.Matmul Proofs.MatmulProofs.
Import ListNotations.
Local Open Scope R_scope.

Section MatmulRounding.
  Variable rnd : R -> R.
  Variable u : R.
  Hypothesis u_nonneg : 0 <= u.
  Hypothesis rnd_err : forall x, Rabs (rnd x - x) <= u * Rabs x.
  Hypothesis rnd_idem : forall x, rnd (rnd x) = rnd x.

  Theorem matmul_float_bound (fused : bool) (c : cfg) (t : ety) (M K N : nat) (a b c0 : nat -> R) (i j : nat) :
    (0 < K)%nat -> (i < M)%nat -> (j < N)%nat ->
    Rabs (matmul (S:=FS rnd fused) c t M K N a b c0 (i * N + j)
          - Rsum (fun k => a (i * K + k)%nat * b (k * N + j)%nat) K)
    <= E u K * Rsum (fun k => Rabs (a (i * K + k)%nat * b (k * N + j)%nat)) K.
  Proof.
    intros HK Hi Hj.
    assert (HN : (0 < N)%nat) by lia.
    destruct (matmul_elements (FS rnd fused) c t M K N a b c0 HK HN (i * N + j)%nat) as [Hin _].
    assert (Hp : (i * N + j < M * N)%nat) by nia.
    specialize (Hin Hp).
    replace ((i * N + j) / N)%nat with i in Hin
      by (symmetry; rewrite Nat.add_comm, Nat.div_add by lia; rewrite Nat.div_small by lia; reflexivity).
    replace ((i * N + j) mod N)%nat with j in Hin
      by (symmetry; rewrite Nat.add_comm, Nat.mod_add by lia; apply Nat.mod_small; lia).
    exact (is_dot_bound rnd u u_nonneg rnd_err rnd_idem
             (rowf (FS rnd fused) K a i) (colf (FS rnd fused) N b j) fused K _ HK Hin).
  Qed.

  (** the same for whichever kernel of the ladder runs *)
  Theorem kernel_float_bound (fused : bool) (c : cfg) (t : ety) (k : kernel) (M K N : nat) (a b c0 : nat -> R) (i j : nat) :
    (0 < K)%nat -> (i < M)%nat -> (j < N)%nat ->
    Rabs (@run_wrs (FS rnd fused) c0 (kernel_wrs (S:=FS rnd fused) c t k M K N a b) (i * N + j)%nat
          - Rsum (fun k => a (i * K + k)%nat * b (k * N + j)%nat) K)
    <= E u K * Rsum (fun k => Rabs (a (i * K + k)%nat * b (k * N + j)%nat)) K.
  Proof.
    intros HK Hi Hj.
    assert (HN : (0 < N)%nat) by lia.
    destruct (kernel_elements (FS rnd fused) c t k M K N a b c0 HK HN (i * N + j)%nat) as [Hin _].
    assert (Hp : (i * N + j < M * N)%nat) by nia.
    specialize (Hin Hp).
    replace ((i * N + j) / N)%nat with i in Hin
      by (symmetry; rewrite Nat.add_comm, Nat.div_add by lia; rewrite Nat.div_small by lia; reflexivity).
    replace ((i * N + j) mod N)%nat with j in Hin
      by (symmetry; rewrite Nat.add_comm, Nat.mod_add by lia; apply Nat.mod_small; lia).
    exact (is_dot_bound rnd u u_nonneg rnd_err rnd_idem
             (rowf (FS rnd fused) K a i) (colf (FS rnd fused) N b j) fused K _ HK Hin).
  Qed.
End MatmulRounding.

(** (1+u)^K - 1 <= K u / (1 - K u): the bound is "proportional to K * eps" *)
Lemma E_linear u K : 0 <= u -> INR K * u < 1 -> E u K <= INR K * u / (1 - INR K * u).
Proof.
  intros Hu. induction K as [|K IH]; intros HK.
  - rewrite E_0. simpl. unfold Rdiv. rewrite Rmult_0_l, Rmult_0_l. lra.
  - rewrite S_INR in *. rewrite E_S.
    assert (HK' : INR K * u < 1) by nra.
    specialize (IH HK').
    assert (H0 : 0 <= INR K) by apply pos_INR.
    set (g := INR K * u) in *.
    assert (Hg : 0 <= g) by (unfold g; nra).
    assert (Hd : 0 < 1 - g) by lra.
    assert (Hd' : 0 < 1 - (INR K + 1) * u) by lra.
    (* E_K <= g/(1-g)  ==>  E_K + u (1 + E_K) <= (g+u)/(1-g-u) *)
    apply Rle_trans with (g / (1 - g) + u * (1 + g / (1 - g))).
    { assert (u * E u K <= u * (g / (1 - g))) by (apply Rmult_le_compat_l; lra). lra. }
    assert (Hgu : (INR K + 1) * u = g + u) by (unfold g; ring).
    rewrite Hgu in *.
    replace (g / (1 - g) + u * (1 + g / (1 - g))) with ((g + u) / (1 - g)) by (field; lra).
    unfold Rdiv. apply Rmult_le_compat_l; [lra|].
    apply Rinv_le_contravar; lra.
Qed.
