(** Forward error of the floating-point product as the library computes it (Model/Reduce.v with the
    rounded multiplication, seed 1), every lane count W and size n:
        |prod_fl - prod_i x_i| <= ((1+u)^(n+W) - 1) * |prod_i x_i|
    (n + W multiplications in all: W lane seeds, n elements, the horizontal fold and the final
    combination; relative errors of a product add). *)
From Coq Require Import Reals Lra Lia List Arith Psatz.
From FastorV Require Import Base.Scalar Base.BigSum Base.Rounding Model.Reduce Proofs.ReduceProofs Proofs.SumRounding.
Import ListNotations.
Local Open Scope R_scope.

Section ProdRounding.
  Variable rnd : R -> R.
  Variable u : R.
  Hypothesis u_nonneg : 0 <= u.
  Hypothesis rnd_err : forall x, Rabs (rnd x - x) <= u * Rabs x.
  Let fmul (a b : R) : R := rnd (a * b).
  Notation E := (E u).

  (** x approximates p with relative error at most E d *)
  Definition MAp (d : nat) (x p : R) : Prop := Rabs (x - p) <= E d * Rabs p.

  Lemma E_add d1 d2 : E (S (d1 + d2)) = (1 + E d1) * (1 + E d2) * (1 + u) - 1.
  Proof. unfold Rounding.E. simpl. rewrite pow_add. ring. Qed.

  Lemma MAp_mono d d' x p : (d <= d')%nat -> MAp d x p -> MAp d' x p.
  Proof.
    intros Hd H. unfold MAp in *. pose proof (E_mono u u_nonneg d d' Hd). pose proof (Rabs_pos p). nra.
  Qed.
  Lemma MAp_exact x : MAp 0 x x.
  Proof. unfold MAp. replace (x - x) with 0 by ring. rewrite Rabs_R0, E_0. lra. Qed.

  Lemma MAp_mul d1 d2 x1 p1 x2 p2 : MAp d1 x1 p1 -> MAp d2 x2 p2 -> MAp (S (d1 + d2)) (fmul x1 x2) (p1 * p2).
  Proof.
    unfold MAp, fmul. intros H1 H2.
    pose proof (rnd_err (x1 * x2)) as Hr.
    pose proof (E_nonneg u u_nonneg d1) as He1. pose proof (E_nonneg u u_nonneg d2) as He2.
    pose proof (Rabs_pos p1) as Hp1. pose proof (Rabs_pos p2) as Hp2.
    (* |x1 x2 - p1 p2| <= ((1+E1)(1+E2) - 1) |p1 p2| *)
    assert (Hx1 : Rabs x1 <= (1 + E d1) * Rabs p1).
    { replace x1 with (p1 + (x1 - p1)) by ring. eapply Rle_trans; [apply Rabs_triang|]. lra. }
    assert (Hd : Rabs (x1 * x2 - p1 * p2) <= ((1 + E d1) * (1 + E d2) - 1) * (Rabs p1 * Rabs p2)).
    { replace (x1 * x2 - p1 * p2) with (x1 * (x2 - p2) + (x1 - p1) * p2) by ring.
      eapply Rle_trans; [apply Rabs_triang|]. rewrite !Rabs_mult.
      assert (Rabs x1 * Rabs (x2 - p2) <= ((1 + E d1) * Rabs p1) * (E d2 * Rabs p2)).
      { apply Rmult_le_compat; try apply Rabs_pos; assumption. }
      assert (Rabs (x1 - p1) * Rabs p2 <= (E d1 * Rabs p1) * Rabs p2) by (apply Rmult_le_compat_r; assumption).
      nra. }
    assert (Hx : Rabs (x1 * x2) <= (1 + E d1) * (1 + E d2) * (Rabs p1 * Rabs p2)).
    { replace (x1 * x2) with (p1 * p2 + (x1 * x2 - p1 * p2)) by ring.
      eapply Rle_trans; [apply Rabs_triang|]. rewrite Rabs_mult. nra. }
    replace (rnd (x1 * x2) - p1 * p2) with ((rnd (x1 * x2) - x1 * x2) + (x1 * x2 - p1 * p2)) by ring.
    eapply Rle_trans; [apply Rabs_triang|]. rewrite E_add, Rabs_mult.
    assert (u * Rabs (x1 * x2) <= u * ((1 + E d1) * (1 + E d2) * (Rabs p1 * Rabs p2))) by (apply Rmult_le_compat_l; assumption).
    set (P := Rabs p1 * Rabs p2) in *. assert (0 <= P) by (unfold P; nra).
    set (A := Rabs (rnd (x1 * x2) - x1 * x2)) in *. set (B := Rabs (x1 * x2 - p1 * p2)) in *. set (Q := Rabs (x1 * x2)) in *.
    set (F := (1 + E d1) * (1 + E d2)) in *. clearbody P A B Q F. nra.
  Qed.

  (** a sequential fold of approximations of depth at most e each *)
  Lemma mfold (vx vp : nat -> R) e l : forall d x p,
    MAp d x p -> (forall i, In i l -> MAp e (vx i) (vp i)) ->
    MAp (d + length l * S e) (fold_left fmul (map vx l) x) (fold_left Rmult (map vp l) p).
  Proof.
    induction l as [|i l IH]; intros d x p Hx Hl; simpl.
    - rewrite Nat.add_0_r. exact Hx.
    - replace (d + S (e + length l * S e))%nat with (S (d + e) + length l * S e)%nat by lia.
      apply IH; [apply MAp_mul; [exact Hx | apply Hl; left; reflexivity] | intros k Hk; apply Hl; right; exact Hk].
  Qed.

  Variable f : nat -> R.

  Lemma lane_MAp W c l : MAp c (lane_acc fmul 1 W f c l) (lane_acc Rmult 1 W f c l).
  Proof.
    induction c as [|c IH]; cbn [lane_acc]; [apply MAp_exact|].
    replace (S c) with (S (c + 0)) by lia. apply MAp_mul; [exact IH | apply MAp_exact].
  Qed.

  Theorem reduce_prod_float W n : (0 < W)%nat ->
    MAp (n + W) (reduce fmul 1 W n f) (reduce Rmult 1 W n f).
  Proof.
    intros HW. unfold reduce. set (c := (n / W)%nat). set (r := (n - c * W)%nat).
    assert (Hc : (c * W <= n)%nat) by (unfold c; rewrite Nat.mul_comm; apply Nat.mul_div_le; lia).
    assert (Hh : MAp (c + (W - 1) * S c) (hfold fmul W (lane_acc fmul 1 W f c)) (hfold Rmult W (lane_acc Rmult 1 W f c))).
    { unfold hfold. replace (W - 1)%nat with (length (seq 1 (W - 1))) at 1 by apply seq_length.
      apply mfold; [apply lane_MAp | intros i _; apply lane_MAp]. }
    assert (Ht : MAp (0 + r * 1) (fold_left fmul (map f (seq (c * W) r)) 1) (fold_left Rmult (map f (seq (c * W) r)) 1)).
    { replace r with (length (seq (c * W) r)) at 1 by apply seq_length.
      apply (mfold f f 0); [apply MAp_exact | intros i _; apply MAp_exact]. }
    eapply MAp_mono; [|apply MAp_mul; [exact Hh | exact Ht]].
    assert ((W - 1) * S c = W * c + W - 1 - c)%nat by nia. unfold r. nia.
  Qed.

  (** C16, floating products *)
  Theorem product_float_bound W n : (0 < W)%nat ->
    Rabs (reduce fmul 1 W n f - fold_left Rmult (map f (seq 0 n)) 1) <= E (n + W) * Rabs (fold_left Rmult (map f (seq 0 n)) 1).
  Proof.
    intros HW. pose proof (reduce_prod_float W n HW) as H. unfold MAp in H.
    pose proof (product_exact RS RS_laws W n f HW) as Hp. simpl in Hp. rewrite Hp in H. exact H.
  Qed.
End ProdRounding.
