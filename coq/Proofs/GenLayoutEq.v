(** tocolumnmajor / torowmajor of tensor/TensorFunctions.h as translated on every run against Model/Layout.v:
    at rank 2 the destination / source offsets of the double loop are (index, counter) resp. (counter, index)
    of the model with counter = j*M + i and index = [rm_of_counter [M;N] counter] = i*N + j; at higher ranks the
    translator accepts only the odometer loop the model describes and reports which side is addressed by `index`:
    the destination for tocolumnmajor, the source for torowmajor - the two functions are the same index map read
    in opposite directions, hence mutually inverse ([torowmajor_tocolumnmajor], [tocolumnmajor_torowmajor]). *)
From Coq Require Import Arith List Lia Bool.
From FastorV Require Import Base.Shape Model.Layout Gen.GeneratedAccess.
Import ListNotations.

Lemma rm_of_counter_2d M N i j : i < M -> j < N -> rm_of_counter [M; N] (j * M + i) = i * N + j.
Proof.
  intros Hi Hj. unfold rm_of_counter. cbn [rev app].
  replace (j * M + i) with (flat [N; M] [j; i]) by (cbn [flat prod]; lia).
  rewrite unflat_flat by (cbn [in_range]; repeat split; assumption).
  cbn [rev app flat prod]. lia.
Qed.

Lemma gen_layout_2d_eq M N i j : i < M -> j < N ->
  gen_tocolumnmajor_2d M N i j = (rm_of_counter [M; N] (j * M + i), j * M + i) /\
  gen_torowmajor_2d M N i j = (j * M + i, rm_of_counter [M; N] (j * M + i)).
Proof. intros Hi Hj. unfold gen_tocolumnmajor_2d, gen_torowmajor_2d. rewrite (rm_of_counter_2d M N i j Hi Hj). split; reflexivity. Qed.

(** the two rank-2 loops are the same index map read in opposite directions *)
Lemma gen_layout_2d_inverse M N i j :
  gen_torowmajor_2d M N i j = (snd (gen_tocolumnmajor_2d M N i j), fst (gen_tocolumnmajor_2d M N i j)).
Proof. reflexivity. Qed.

Lemma gen_layout_general_eq : gen_layout_general = [(true, false); (false, true)].
Proof. reflexivity. Qed.

(** squeeze / reshape / flatten return a map constructed from a.data() - the source's own storage, which is what
    [run_history] (an operation through a map is the operation on the buffer) models - and a TensorMap never
    claims alignment *)
Lemma gen_map_functions_eq : gen_map_functions = [true; true; true; true].
Proof. reflexivity. Qed.
