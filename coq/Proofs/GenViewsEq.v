(** The constructor normalisation and the index computations of the dynamic 1-D / 2-D view classes
    (const and non-const copies), as translated from the source on every run (Gen/GeneratedViews.v),
    are the ones of the model (Model/Views.v): norm1d / normnd, and the parent offset
    (first0 + i0*step0)*N + (first1 + i1*step1) with (i0,i1) = (idx / size1, idx mod size1). *)
From Coq Require Import Arith ZArith List Bool Lia.
From FastorV Require Import Base.Shape Model.Views Gen.GeneratedViews.
Import ListNotations.

Local Open Scope Z_scope.

Lemma norm1d_pair f l s N : (uf (norm1d N (mkU f l s)), ul (norm1d N (mkU f l s))) =
  ((if f <? 0 then f + (N + 1) else f), (if l <? 0 then l + (N + 1) else l)).
Proof. unfold norm1d; simpl. destruct (f <? 0), (l <? 0); f_equal; lia. Qed.

Lemma gen_view1d_norm_const_eq f l s N :
  gen_view1d_norm_const f l N = (uf (norm1d N (mkU f l s)), ul (norm1d N (mkU f l s))).
Proof. rewrite norm1d_pair. reflexivity. Qed.
Lemma gen_view1d_norm_nonconst_eq f l s N :
  gen_view1d_norm_nonconst f l N = (uf (norm1d N (mkU f l s)), ul (norm1d N (mkU f l s))).
Proof. rewrite norm1d_pair. reflexivity. Qed.

Definition normnd4 (f0 l0 s0 f1 l1 s1 M N : Z) : Z * Z * Z * Z :=
  (uf (normnd M (mkU f0 l0 s0)), ul (normnd M (mkU f0 l0 s0)), uf (normnd N (mkU f1 l1 s1)), ul (normnd N (mkU f1 l1 s1))).

Ltac norm_cases :=
  unfold normnd4, normnd; simpl;
  repeat match goal with
         | |- context [?a <? ?b] => destruct (Z.ltb_spec a b)
         | |- context [?a <=? ?b] => destruct (Z.leb_spec a b)
         | |- context [?a =? ?b] => destruct (Z.eqb_spec a b)
         end; simpl; try lia;
  repeat match goal with |- (_, _) = (_, _) => apply f_equal2 end; lia.

Lemma gen_view2d_norm_const_eq f0 l0 s0 f1 l1 s1 M N :
  gen_view2d_norm_const f0 l0 f1 l1 M N = normnd4 f0 l0 s0 f1 l1 s1 M N.
Proof. unfold gen_view2d_norm_const. norm_cases. Qed.
Lemma gen_view2d_norm_nonconst_eq f0 l0 s0 f1 l1 s1 M N :
  gen_view2d_norm_nonconst f0 l0 f1 l1 M N = normnd4 f0 l0 s0 f1 l1 s1 M N.
Proof. unfold gen_view2d_norm_nonconst. norm_cases. Qed.

(** the offset formula in Z *)
Definition off2 (f0 s0 f1 s1 sz1 N idx : Z) : Z := (f0 + (idx / sz1) * s0) * N + (f1 + (idx mod sz1) * s1).

Lemma gen_view2d_evals_const_eq f0 s0 f1 s1 sz1 N idx : 0 <= idx -> 0 < sz1 ->
  gen_view2d_evals_const f0 s0 f1 s1 sz1 N idx = off2 f0 s0 f1 s1 sz1 N idx.
Proof.
  intros Hi Hs. unfold gen_view2d_evals_const, off2.
  rewrite Z.quot_div_nonneg, Z.rem_mod_nonneg by lia. ring.
Qed.
Lemma gen_view2d_evals_nonconst_eq f0 s0 f1 s1 sz1 N idx : 0 <= idx -> 0 < sz1 ->
  gen_view2d_evals_nonconst f0 s0 f1 s1 sz1 N idx = off2 f0 s0 f1 s1 sz1 N idx.
Proof.
  intros Hi Hs. unfold gen_view2d_evals_nonconst, off2.
  rewrite Z.quot_div_nonneg, Z.rem_mod_nonneg by lia. ring.
Qed.
(* the vector read gathers, into lane j, the element the scalar read returns for idx + j *)
Lemma gen_view2d_evallane_const_eq f0 s0 f1 s1 sz1 N idx j :
  gen_view2d_evallane_const f0 s0 f1 s1 sz1 N idx j = gen_view2d_evals_const f0 s0 f1 s1 sz1 N (idx + j).
Proof. reflexivity. Qed.
Lemma gen_view2d_evallane_nonconst_eq f0 s0 f1 s1 sz1 N idx j :
  gen_view2d_evallane_nonconst f0 s0 f1 s1 sz1 N idx j = gen_view2d_evals_nonconst f0 s0 f1 s1 sz1 N (idx + j).
Proof. reflexivity. Qed.

Lemma gen_view2d_evals2_const_eq f0 s0 f1 s1 i j :
  gen_view2d_evals2_const f0 s0 f1 s1 i j = (f0 + i * s0, f1 + j * s1).
Proof. unfold gen_view2d_evals2_const. f_equal; ring. Qed.
Lemma gen_view2d_evals2_nonconst_eq f0 s0 f1 s1 i j :
  gen_view2d_evals2_nonconst f0 s0 f1 s1 i j = (f0 + i * s0, f1 + j * s1).
Proof. unfold gen_view2d_evals2_nonconst. f_equal; ring. Qed.

(* eval(i,j): a contiguous load when the column step is 1, a strided gather otherwise; in both
   cases lane k reads parent offset (f0 + i*s0)*N + (f1 + (j+k)*s1) *)
Lemma gen_view2d_eval2_const_eq f0 s0 f1 s1 N i j k :
  let '(o, st) := gen_view2d_eval2_const f0 s0 f1 s1 N i j in
  o + k * st = (f0 + i * s0) * N + (f1 + (j + k) * s1).
Proof. unfold gen_view2d_eval2_const. destruct (Z.eqb_spec s1 1) as [->|]; ring. Qed.
Lemma gen_view2d_eval2_nonconst_eq f0 s0 f1 s1 N i j k :
  let '(o, st) := gen_view2d_eval2_nonconst f0 s0 f1 s1 N i j in
  o + k * st = (f0 + i * s0) * N + (f1 + (j + k) * s1).
Proof. unfold gen_view2d_eval2_nonconst. destruct (Z.eqb_spec s1 1) as [->|]; ring. Qed.

Lemma gen_view1d_evals_const_eq f s i : gen_view1d_evals_const f s i = f + i * s.
Proof. unfold gen_view1d_evals_const. ring. Qed.
Lemma gen_view1d_evals_nonconst_eq f s i : gen_view1d_evals_nonconst f s i = f + i * s.
Proof. unfold gen_view1d_evals_nonconst. ring. Qed.
Lemma gen_view1d_eval_const_eq f s i k : let '(o, st) := gen_view1d_eval_const f s i in o + k * st = f + (i + k) * s.
Proof. unfold gen_view1d_eval_const. ring. Qed.
Lemma gen_view1d_eval_nonconst_eq f s i k : let '(o, st) := gen_view1d_eval_nonconst f s i in o + k * st = f + (i + k) * s.
Proof. unfold gen_view1d_eval_nonconst. ring. Qed.
Local Close Scope Z_scope.

(** the model's view offset for ranks 1 and 2 is that formula *)
Lemma view_off_1d N r p : p < nsize r -> view_off [N] [r] p = nfirst r + p * nstep r.
Proof.
  intros Hp. unfold view_off, vdims. cbn -[Nat.div Nat.modulo]. rewrite Nat.div_1_r, Nat.mod_small by exact Hp. lia.
Qed.
Lemma view_off_2d M N r0 r1 p : p < nsize r0 * nsize r1 ->
  view_off [M; N] [r0; r1] p = (nfirst r0 + (p / nsize r1) * nstep r0) * N + (nfirst r1 + (p mod nsize r1) * nstep r1).
Proof.
  intros Hp. unfold view_off, vdims. cbn -[Nat.div Nat.modulo].
  assert (H1 : 0 < nsize r1) by (destruct (nsize r1); lia).
  rewrite ?Nat.mul_1_r, ?Nat.div_1_r.
  rewrite (Nat.mod_small (p / nsize r1) (nsize r0)) by (apply Nat.div_lt_upper_bound; lia).
  lia.
Qed.

(** so the translated scalar read of a 2-D view returns the parent offset the model prescribes *)
Theorem gen_view2d_reads_model_offset M N r0 r1 p : p < nsize r0 * nsize r1 ->
  gen_view2d_evals_const (Z.of_nat (nfirst r0)) (Z.of_nat (nstep r0)) (Z.of_nat (nfirst r1)) (Z.of_nat (nstep r1))
                         (Z.of_nat (nsize r1)) (Z.of_nat N) (Z.of_nat p) = Z.of_nat (view_off [M; N] [r0; r1] p) /\
  gen_view2d_evals_nonconst (Z.of_nat (nfirst r0)) (Z.of_nat (nstep r0)) (Z.of_nat (nfirst r1)) (Z.of_nat (nstep r1))
                         (Z.of_nat (nsize r1)) (Z.of_nat N) (Z.of_nat p) = Z.of_nat (view_off [M; N] [r0; r1] p).
Proof.
  intros Hp. assert (H1 : 0 < nsize r1) by (destruct (nsize r1); lia).
  rewrite gen_view2d_evals_const_eq, gen_view2d_evals_nonconst_eq by lia.
  rewrite view_off_2d by exact Hp. unfold off2.
  rewrite !Nat2Z.inj_add, !Nat2Z.inj_mul, !Nat2Z.inj_add, !Nat2Z.inj_mul, Nat2Z.inj_div, Nat2Z.inj_mod. split; reflexivity.
Qed.
Theorem gen_view1d_reads_model_offset N r p : p < nsize r ->
  gen_view1d_evals_const (Z.of_nat (nfirst r)) (Z.of_nat (nstep r)) (Z.of_nat p) = Z.of_nat (view_off [N] [r] p) /\
  gen_view1d_evals_nonconst (Z.of_nat (nfirst r)) (Z.of_nat (nstep r)) (Z.of_nat p) = Z.of_nat (view_off [N] [r] p).
Proof.
  intros Hp. rewrite gen_view1d_evals_const_eq, gen_view1d_evals_nonconst_eq, view_off_1d by exact Hp.
  rewrite Nat2Z.inj_add, Nat2Z.inj_mul. split; reflexivity.
Qed.

(** * BlockIndexing.h: flat indices precomputed by the index-tensor overloads of operator()
    (non-const and const copies), as translated, are the entries of the model's idx2 / idx_col /
    idx_row / idx_it_range / idx_range_it (Model/RandomViews.v) *)
From FastorV Require Import Model.RandomViews.
Local Open Scope Z_scope.
Lemma gen_bidx_eq a b num f s ncols i j :
  (gen_bidx_it_it_nonconst a b num f s ncols i j = a * ncols + b /\ gen_bidx_it_it_const a b num f s ncols i j = a * ncols + b) /\
  (gen_bidx_it_num_nonconst a b num f s ncols i j = a * ncols + num /\ gen_bidx_it_num_const a b num f s ncols i j = a * ncols + num) /\
  (gen_bidx_num_it_nonconst a b num f s ncols i j = num * ncols + a /\ gen_bidx_num_it_const a b num f s ncols i j = num * ncols + a) /\
  (gen_bidx_it_fseq_nonconst a b num f s ncols i j = a * ncols + (f + j * s) /\ gen_bidx_it_fseq_const a b num f s ncols i j = a * ncols + (f + j * s)) /\
  (gen_bidx_fseq_it_nonconst a b num f s ncols i j = (f + i * s) * ncols + b /\ gen_bidx_fseq_it_const a b num f s ncols i j = (f + i * s) * ncols + b) /\
  (* the compile-time range is normalised against the column count in A(it, fseq), the row count in A(fseq, it) *)
  (gen_bidx_it_fseq_axis_nonconst = 2%nat /\ gen_bidx_it_fseq_axis_const = 2%nat /\ gen_bidx_fseq_it_axis_nonconst = 1%nat /\ gen_bidx_fseq_it_axis_const = 1%nat).
Proof.
  unfold gen_bidx_it_it_nonconst, gen_bidx_it_it_const, gen_bidx_it_num_nonconst, gen_bidx_it_num_const, gen_bidx_num_it_nonconst,
    gen_bidx_num_it_const, gen_bidx_it_fseq_nonconst, gen_bidx_it_fseq_const, gen_bidx_fseq_it_nonconst, gen_bidx_fseq_it_const.
  repeat split; try reflexivity; ring.
Qed.
Local Close Scope Z_scope.

(** entries of the model's index lists *)
Lemma idx2_nth ncols it0 it1 i j : i < length it0 -> j < length it1 ->
  nth (i * length it1 + j) (idx2 ncols it0 it1) 0 = nth i it0 0 * ncols + nth j it1 0.
Proof.
  unfold idx2. revert i. induction it0 as [|a it0 IH]; intros i Hi Hj; [simpl in Hi; lia|]. simpl flat_map.
  destruct i as [|i].
  - simpl Nat.mul. simpl Nat.add. rewrite app_nth1 by (rewrite map_length; exact Hj).
    rewrite (nth_indep _ 0 ((fun b => a * ncols + b) 0)) by (rewrite map_length; exact Hj). rewrite map_nth. reflexivity.
  - rewrite app_nth2 by (rewrite map_length; simpl; lia). rewrite map_length.
    replace (Datatypes.S i * length it1 + j - length it1) with (i * length it1 + j) by (simpl; lia).
    simpl in Hi. rewrite IH by lia. reflexivity.
Qed.

(** * every access site of the parent in the non-const 2-D view class (all five assignment operators,
    every right-hand-side kind, with FASTOR_USE_VECTORISED_EXPR_ASSIGN), as translated: a contiguous vector
    address is used only in the `_seq1._step == 1` branch and is (f0+i*s0)*N + f1 + j; a scattered store is
    at (f0+i*s0)*N + f1 + j*s1 with stride s1; a scalar access is at row f0+i*s0 and column f1+j*s1 (f1+j in
    the unit-step branch) - the offsets of [view_write] (Model/Views.v) *)
Local Open Scope Z_scope.
Definition site_ok (f0 s0 f1 s1 N i j : Z) (site : nat * bool * Z * Z) : Prop :=
  let '(kind, unit_step, e1, e2) := site in
  match kind with
  | 0%nat => unit_step = true /\ e1 = (f0 + i * s0) * N + (f1 + j)
  | 1%nat => e1 = (f0 + i * s0) * N + (f1 + j * s1) /\ e2 = s1
  | _ => e1 = f0 + i * s0 /\ (e2 = f1 + j * s1 \/ (unit_step = true /\ e2 = f1 + j))
  end.
Lemma gen_view2d_write_sites_ok f0 s0 f1 s1 N i j :
  Forall (site_ok f0 s0 f1 s1 N i j) (gen_view2d_write_sites f0 s0 f1 s1 N i j) /\
  (40 <= length (gen_view2d_write_sites f0 s0 f1 s1 N i j))%nat.
Proof.
  split; [|unfold gen_view2d_write_sites; simpl; lia].
  unfold gen_view2d_write_sites.
  repeat (apply Forall_cons; [unfold site_ok; first [ split; [reflexivity | ring]
                                                    | split; [ring | reflexivity]
                                                    | split; [ring | left; ring]
                                                    | split; [ring | right; split; [reflexivity | ring]] ] |]).
  apply Forall_nil.
Qed.
Local Close Scope Z_scope.

(** the same census for the compile-time 2-D view class (Padding = F0*N + F1) and the dynamic 1-D view class *)
Local Open Scope Z_scope.
Definition site1d_ok (f s i j : Z) (site : nat * bool * Z * Z) : Prop :=
  let '(kind, unit_step, e1, e2) := site in
  match kind with
  | 0%nat => unit_step = true /\ e1 = f + i                      (* contiguous vector address, unit step only *)
  | 1%nat => e1 = f + i * s /\ e2 = s                            (* scattered store *)
  | _ => e1 = f + i * s \/ e1 = f + (i + j) * s \/ (unit_step = true /\ e1 = f + i)     (* scalar store of element i, or of lane j of the vector starting at i *)
  end.
Lemma gen_fixedview2d_write_sites_ok F0 S0 F1 S1 N i j :
  Forall (site_ok F0 S0 F1 S1 N i j) (gen_fixedview2d_write_sites F0 S0 F1 S1 N i j) /\
  (40 <= length (gen_fixedview2d_write_sites F0 S0 F1 S1 N i j))%nat.
Proof.
  split; [|unfold gen_fixedview2d_write_sites; simpl; lia].
  unfold gen_fixedview2d_write_sites.
  repeat (apply Forall_cons; [unfold site_ok; first [ split; [reflexivity | ring]
                                                    | split; [ring | reflexivity]
                                                    | split; [ring | left; ring]
                                                    | split; [ring | right; split; [reflexivity | ring]] ] |]).
  apply Forall_nil.
Qed.
Lemma gen_view1d_write_sites_ok f s i j :
  Forall (site1d_ok f s i j) (gen_view1d_write_sites f s i j) /\ (30 <= length (gen_view1d_write_sites f s i j))%nat.
Proof.
  split; [|unfold gen_view1d_write_sites; simpl; lia].
  unfold gen_view1d_write_sites.
  repeat (apply Forall_cons; [unfold site1d_ok; first [ split; [reflexivity | ring]
                                                      | split; [ring | reflexivity]
                                                      | left; ring
                                                      | right; left; ring
                                                      | right; right; split; [reflexivity | ring] ] |]).
  apply Forall_nil.
Qed.
Local Close Scope Z_scope.

(** * noalias(): in every one of the 74 assignment operators of the view classes that honours noalias(), the
    aliasing branch - as translated - stages its own argument into a copy and then applies THE SAME operator to
    the staged copy, and is compiled in when FASTOR_NO_ALIAS is 0 (guard `#if !(FASTOR_NO_ALIAS)`): the staging
    that [view_write_noalias] (Model/Views.v) models *)
Lemma gen_noalias_branches_ok :
  forallb (fun b => let '(f, op, called, guard) := b in (op =? called) && guard) gen_noalias_branches = true /\
  60 <= length gen_noalias_branches.
Proof. split; [reflexivity | unfold gen_noalias_branches; simpl; lia]. Qed.

(** * right-hand sides that are evaluated first (trans(), %, inverse ...: requires_evaluation_v): every one of the 65
    overloads of the assignment operators of the view classes selected for them - as translated - evaluates its own
    argument into a temporary and forwards the temporary to THE SAME operator; and each of the five operators has
    the same number of such overloads (no view class lacks one) *)
Lemma gen_evalrhs_forwards_ok :
  forallb (fun b => let '(f, op, called) := b in (op =? called)) gen_evalrhs_forwards = true /\
  60 <= length gen_evalrhs_forwards /\
  forall o, In o [0; 1; 2; 3; 4] ->
    5 * length (filter (fun b => let '(f, op, called) := b in op =? o) gen_evalrhs_forwards) = length gen_evalrhs_forwards.
Proof.
  split; [reflexivity | split; [unfold gen_evalrhs_forwards; simpl; lia |]].
  intros o Ho. simpl in Ho.
  destruct Ho as [<- | [<- | [<- | [<- | [<- | []]]]]]; reflexivity.
Qed.
