From Coq Require Import ZArith List Lia Bool Permutation.
From FastorV Require Import Model.Simd.
Import ListNotations.
Local Open Scope Z_scope.

(* ---------------------------------------------------------------- wrap *)
Lemma pow_pos w : 0 <= w -> 0 < 2 ^ w. Proof. intros; apply Z.pow_pos_nonneg; lia. Qed.
Lemma pow_split w : 0 < w -> 2 ^ w = 2 * 2 ^ (w - 1).
Proof. intros; replace w with (Z.succ (w - 1)) at 1 by lia; rewrite Z.pow_succ_r; lia. Qed.

Lemma wrap_in_lane w x : 0 < w -> in_lane w (wrap w x).
Proof.
  intros Hw; unfold in_lane, wrap. pose proof (pow_pos (w - 1) ltac:(lia)) as Hp. pose proof (pow_split w Hw) as Hs.
  pose proof (Z.mod_pos_bound (x + 2 ^ (w - 1)) (2 ^ w) ltac:(lia)). lia.
Qed.
Lemma wrap_id w x : 0 < w -> in_lane w x -> wrap w x = x.
Proof.
  intros Hw [H1 H2]; unfold wrap. pose proof (pow_split w Hw). rewrite Z.mod_small; lia.
Qed.
Lemma wrap_eqm w x y : 0 <= w -> x mod 2 ^ w = y mod 2 ^ w -> wrap w x = wrap w y.
Proof.
  intros Hw H; unfold wrap. f_equal. pose proof (pow_pos w Hw).
  rewrite (Z.add_mod x) by lia. rewrite (Z.add_mod y) by lia. rewrite H. reflexivity.
Qed.
Lemma wrap_mod w x : 0 < w -> (wrap w x) mod 2 ^ w = x mod 2 ^ w.
Proof.
  intros Hw; unfold wrap. pose proof (pow_pos w ltac:(lia)). pose proof (pow_split w Hw).
  rewrite <- (Z.mod_add _ 1 (2 ^ w)) by lia.
  replace ((x + 2 ^ (w - 1)) mod 2 ^ w - 2 ^ (w - 1) + 1 * 2 ^ w) with ((x + 2 ^ (w - 1)) mod 2 ^ w + 2 ^ (w - 1)) by lia.
  rewrite Z.add_mod_idemp_l by lia.
  replace (x + 2 ^ (w - 1) + 2 ^ (w - 1)) with (x + 1 * 2 ^ w) by lia. apply Z.mod_add; lia.
Qed.
Lemma wrap_wrap w x : 0 < w -> wrap w (wrap w x) = wrap w x.
Proof. intros; apply wrap_eqm; [lia | apply wrap_mod; auto]. Qed.
Lemma wrap_add_l w a b : 0 < w -> wrap w (wrap w a + b) = wrap w (a + b).
Proof. intros; apply wrap_eqm; [lia|]. pose proof (pow_pos w ltac:(lia)). rewrite Z.add_mod by lia. rewrite wrap_mod by auto. rewrite <- Z.add_mod by lia. reflexivity. Qed.
Lemma wrap_add_r w a b : 0 < w -> wrap w (a + wrap w b) = wrap w (a + b).
Proof. intros; rewrite Z.add_comm, wrap_add_l by auto; f_equal; lia. Qed.
Lemma wrap_mul_l w a b : 0 < w -> wrap w (wrap w a * b) = wrap w (a * b).
Proof. intros; apply wrap_eqm; [lia|]. pose proof (pow_pos w ltac:(lia)). rewrite Z.mul_mod by lia. rewrite wrap_mod by auto. rewrite <- Z.mul_mod by lia. reflexivity. Qed.
Lemma wrap_mul_r w a b : 0 < w -> wrap w (a * wrap w b) = wrap w (a * b).
Proof. intros; rewrite Z.mul_comm, wrap_mul_l by auto; f_equal; lia. Qed.
Lemma wrap_sub_l w a b : 0 < w -> wrap w (wrap w a - b) = wrap w (a - b).
Proof. intros; unfold Z.sub; apply wrap_add_l; auto. Qed.
Lemma wrap_sub_r w a b : 0 < w -> wrap w (a - wrap w b) = wrap w (a - b).
Proof.
  intros; apply wrap_eqm; [lia|]. pose proof (pow_pos w ltac:(lia)).
  rewrite Zminus_mod, wrap_mod, <- Zminus_mod by auto. reflexivity.
Qed.

(* ---------------------------------------------------------------- horizontal operations *)
Definition zsum (l : list Z) : Z := fold_right Z.add 0 l.
Definition zprod (l : list Z) : Z := fold_right Z.mul 1 l.

Lemma h_sum_acc w l acc : 0 < w -> fold_left (fun a x => wrap w (a + x)) l (wrap w acc) = wrap w (acc + zsum l).
Proof.
  intros Hw; unfold zsum; revert acc; induction l as [|x l IH]; intros acc; cbn [fold_left fold_right].
  - f_equal; lia.
  - rewrite wrap_add_l by auto. rewrite IH. f_equal; lia.
Qed.
(** the fold over the lanes is the wrapped exact sum: hence independent of the order and of the grouping
    (trees of pairwise additions, hadd ladders, half-register reductions) *)
Theorem h_sum_total w l : 0 < w -> h_sum w l = wrap w (zsum l).
Proof. intros Hw; unfold h_sum. replace 0 with (wrap w 0) at 1 by (apply wrap_id; [auto|]; unfold in_lane; pose proof (pow_pos (w-1) ltac:(lia)); lia). rewrite h_sum_acc by auto. f_equal. Qed.
Lemma zsum_app l1 l2 : zsum (l1 ++ l2) = zsum l1 + zsum l2.
Proof. unfold zsum; induction l1; cbn [app fold_right] in *; lia. Qed.
Theorem h_sum_app w l1 l2 : 0 < w -> h_sum w (l1 ++ l2) = wrap w (h_sum w l1 + h_sum w l2).
Proof. intros; rewrite !h_sum_total, zsum_app, wrap_add_l, wrap_add_r by auto. reflexivity. Qed.
Lemma zsum_perm l l' : Permutation l l' -> zsum l = zsum l'.
Proof. unfold zsum; induction 1; cbn [fold_right] in *; lia. Qed.
Theorem h_sum_perm w l l' : 0 < w -> Permutation l l' -> h_sum w l = h_sum w l'.
Proof. intros; rewrite !h_sum_total by auto; f_equal; apply zsum_perm; auto. Qed.

Lemma h_prod_acc w l acc : 0 < w -> fold_left (fun a x => wrap w (a * x)) l (wrap w acc) = wrap w (acc * zprod l).
Proof.
  intros Hw; unfold zprod; revert acc; induction l as [|x l IH]; intros acc; cbn [fold_left fold_right].
  - f_equal; lia.
  - rewrite wrap_mul_l by auto. rewrite IH. f_equal; lia.
Qed.
Theorem h_prod_total w l : 1 < w -> h_prod w l = wrap w (zprod l).
Proof.
  intros Hw; unfold h_prod. replace 1 with (wrap w 1) at 1.
  - rewrite h_prod_acc by lia. f_equal; lia.
  - apply wrap_id; [lia|]. unfold in_lane. assert (2 <= 2 ^ (w - 1)). { replace 2 with (2 ^ 1) at 1 by reflexivity. apply Z.pow_le_mono_r; lia. } lia.
Qed.

Lemma fold_min_le l : forall x y, In y (x :: l) -> fold_left Z.min l x <= y.
Proof.
  induction l as [|a l IH]; intros x y Hy; cbn [fold_left].
  - destruct Hy as [Hy|[]]; lia.
  - pose proof (IH (Z.min x a) (Z.min x a) (or_introl eq_refl)) as Hs.
    destruct Hy as [Hy|[Hy|Hy]]; [subst; lia | subst; lia | apply IH; right; auto].
Qed.
Lemma fold_min_in l x : In (fold_left Z.min l x) (x :: l).
Proof.
  revert x; induction l as [|a l IH]; intros x; cbn [fold_left]; [left; auto|].
  destruct (IH (Z.min x a)) as [H|H]; [| right; right; auto].
  rewrite <- H. destruct (Z.min_spec x a) as [[_ E]|[_ E]]; rewrite E; [left | right; left]; auto.
Qed.
(** minimum(): a lower bound of all lanes that is one of the lanes (the seed is lane 0, not 0) *)
Theorem h_min_spec x l : In (h_min (x :: l)) (x :: l) /\ forall y, In y (x :: l) -> h_min (x :: l) <= y.
Proof. split; [apply fold_min_in | apply fold_min_le]. Qed.
Lemma fold_max_ge l : forall x y, In y (x :: l) -> y <= fold_left Z.max l x.
Proof.
  induction l as [|a l IH]; intros x y Hy; cbn [fold_left].
  - destruct Hy as [Hy|[]]; lia.
  - pose proof (IH (Z.max x a) (Z.max x a) (or_introl eq_refl)) as Hs.
    destruct Hy as [Hy|[Hy|Hy]]; [subst; lia | subst; lia | apply IH; right; auto].
Qed.
Lemma fold_max_in l x : In (fold_left Z.max l x) (x :: l).
Proof.
  revert x; induction l as [|a l IH]; intros x; cbn [fold_left]; [left; auto|].
  destruct (IH (Z.max x a)) as [H|H]; [| right; right; auto].
  rewrite <- H. destruct (Z.max_spec x a) as [[_ E]|[_ E]]; rewrite E; [right; left | left]; auto.
Qed.
Theorem h_max_spec x l : In (h_max (x :: l)) (x :: l) /\ forall y, In y (x :: l) -> y <= h_max (x :: l).
Proof. split; [apply fold_max_in | apply fold_max_ge]. Qed.

(* ---------------------------------------------------------------- lane-wise structure *)
Lemma map2_nth {A B C} (f : A -> B -> C) l m k da db dc :
  (k < length l)%nat -> (k < length m)%nat -> nth k (map2 f l m) dc = f (nth k l da) (nth k m db).
Proof.
  revert m k; induction l as [|a l IH]; intros [|b m] k H1 H2; cbn in *; try lia.
  destruct k; [reflexivity | apply IH; lia].
Qed.
Lemma map2_length {A B C} (f : A -> B -> C) l m : length l = length m -> length (map2 f l m) = length l.
Proof. revert m; induction l as [|a l IH]; intros [|b m] H; cbn in *; try lia. f_equal; apply IH; lia. Qed.
(** every binary vector operation acts on lane k alone *)
Theorem v_add_lane w a b k : (k < length a)%nat -> length a = length b -> nth k (v_add w a b) 0 = l_add w (nth k a 0) (nth k b 0).
Proof. intros; unfold v_add; apply map2_nth; lia. Qed.
Theorem v_sub_lane w a b k : (k < length a)%nat -> length a = length b -> nth k (v_sub w a b) 0 = l_sub w (nth k a 0) (nth k b 0).
Proof. intros; unfold v_sub; apply map2_nth; lia. Qed.
Theorem v_mul_lane w a b k : (k < length a)%nat -> length a = length b -> nth k (v_mul w a b) 0 = l_mul w (nth k a 0) (nth k b 0).
Proof. intros; unfold v_mul; apply map2_nth; lia. Qed.
Theorem v_min_lane a b k : (k < length a)%nat -> length a = length b -> nth k (v_min a b) 0 = Z.min (nth k a 0) (nth k b 0).
Proof. intros; unfold v_min; apply map2_nth; lia. Qed.
Theorem v_max_lane a b k : (k < length a)%nat -> length a = length b -> nth k (v_max a b) 0 = Z.max (nth k a 0) (nth k b 0).
Proof. intros; unfold v_max; apply map2_nth; lia. Qed.
Theorem v_reverse_lane a k : (k < length a)%nat -> nth k (v_reverse a) 0 = nth (length a - 1 - k) a 0.
Proof. intros; unfold v_reverse. rewrite rev_nth by auto. f_equal; lia. Qed.
Theorem v_set_lane args k : (k < length args)%nat -> nth k (v_set args) 0 = nth (length args - 1 - k) args 0.
Proof. apply v_reverse_lane. Qed.
Lemma map_seq_nth {A} (f : nat -> A) n k d : (k < n)%nat -> nth k (map f (seq 0 n)) d = f k.
Proof.
  intros H. rewrite (nth_indep _ d (f 0%nat)) by (rewrite map_length, seq_length; auto).
  rewrite map_nth, seq_nth by auto. reflexivity.
Qed.
Theorem v_set_sequential_lane w n x k : (k < n)%nat -> nth k (v_set_sequential w n x) 0 = wrap w (x + Z.of_nat k).
Proof. intros; unfold v_set_sequential. apply (map_seq_nth (fun i => wrap w (x + Z.of_nat i))); auto. Qed.

(* ---------------------------------------------------------------- the SSE2 helpers as written *)
Definition lane32 (x : Z) : Prop := in_lane 32 x.
Lemma s32_id x : lane32 x -> s32 x = x. Proof. intros; apply wrap_id; [lia | auto]. Qed.
Lemma s32_u32 x : s32 (u32 x) = s32 x.
Proof. unfold s32, u32; apply wrap_eqm; [lia|]. apply Z.mod_mod. pose proof (pow_pos 32); lia. Qed.
Lemma u32_mul_eqm a b : (u32 a * u32 b) mod 2 ^ 32 = (a * b) mod 2 ^ 32.
Proof. unfold u32. rewrite <- Z.mul_mod by (pose proof (pow_pos 32); lia). reflexivity. Qed.
Lemma s32_umul a b : s32 (u32 a * u32 b) = wrap 32 (a * b).
Proof. unfold s32; apply wrap_eqm; [lia | apply u32_mul_eqm]. Qed.

Lemma shuf_2301 a0 a1 a2 a3 : shuffle_epi32 [a0; a1; a2; a3] (MM_SHUFFLE 2 3 0 1) = [a1; a0; a3; a2]. Proof. reflexivity. Qed.
Lemma shuf_0123 a0 a1 a2 a3 : shuffle_epi32 [a0; a1; a2; a3] (MM_SHUFFLE 0 1 2 3) = [a3; a2; a1; a0]. Proof. reflexivity. Qed.
Lemma shuf_2222 a0 a1 a2 a3 : shuffle_epi32 [a0; a1; a2; a3] (MM_SHUFFLE 2 2 2 2) = [a2; a2; a2; a2]. Proof. reflexivity. Qed.
Lemma shuf_f5 a0 a1 a2 a3 : shuffle_epi32 [a0; a1; a2; a3] 245 = [a1; a1; a3; a3]. Proof. reflexivity. Qed.

Theorem reverse_epi32_spec a0 a1 a2 a3 : reverse_epi32 [a0; a1; a2; a3] = v_reverse [a0; a1; a2; a3].
Proof. reflexivity. Qed.

Theorem sum_epi32_spec a0 a1 a2 a3 : sum_epi32 [a0; a1; a2; a3] = h_sum 32 [a0; a1; a2; a3].
Proof.
  rewrite h_sum_total by lia. unfold sum_epi32. cbv zeta. rewrite shuf_2301. unfold add_epi32. cbn [map2].
  rewrite shuf_0123. unfold cvtsi128_si32, ln, s32. cbn [map2 nth]. unfold zsum; cbn [fold_right].
  rewrite wrap_add_l, wrap_add_r by lia. f_equal; lia.
Qed.

Theorem mul_epi32x_sse2_spec a0 a1 a2 a3 b0 b1 b2 b3 :
  mul_epi32x_sse2 [a0; a1; a2; a3] [b0; b1; b2; b3] = v_mul 32 [a0; a1; a2; a3] [b0; b1; b2; b3].
Proof.
  unfold mul_epi32x_sse2. cbv zeta. rewrite !shuf_f5.
  unfold unpacklo_epi64, unpacklo_epi32, unpackhi_epi32, mul_epu32, ln, v_mul, l_mul. cbn [map2 nth].
  rewrite !s32_umul. reflexivity.
Qed.

Theorem prod_epi32_spec a0 a1 a2 a3 : prod_epi32 [a0; a1; a2; a3] = h_prod 32 [a0; a1; a2; a3].
Proof.
  rewrite h_prod_total by lia. unfold prod_epi32. cbv zeta. rewrite shuf_2301. unfold mul_epu32 at 2 3. unfold ln. cbn [nth].
  rewrite shuf_2222. unfold mul_epu32, cvtsi128_si32, ln. cbn [nth].
  rewrite !s32_umul. unfold zprod; cbn [fold_right].
  rewrite wrap_mul_l, wrap_mul_r by lia. f_equal; lia.
Qed.

Theorem dot_epi32_sse2_spec a0 a1 a2 a3 b0 b1 b2 b3 :
  dot_epi32_sse2 [a0; a1; a2; a3] [b0; b1; b2; b3] = h_dot 32 [a0; a1; a2; a3] [b0; b1; b2; b3].
Proof. unfold dot_epi32_sse2, h_dot. rewrite mul_epi32x_sse2_spec. unfold v_mul; cbn [map2]. apply sum_epi32_spec. Qed.

Theorem neg_epi32_spec a0 a1 a2 a3 : neg_epi32 [a0; a1; a2; a3] = v_neg 32 [a0; a1; a2; a3].
Proof. reflexivity. Qed.

Lemma shiftr31 x : lane32 x -> Z.shiftr x 31 = if x <? 0 then -1 else 0.
Proof.
  intros [H1 H2]. rewrite Z.shiftr_div_pow2 by lia. change (2 ^ (32 - 1)) with 2147483648 in *. change (2 ^ 31) with 2147483648.
  destruct (Z.ltb_spec x 0).
  - symmetry; apply Z.div_unique with (r := x + 2147483648); lia.
  - apply Z.div_small; lia.
Qed.
Lemma abs_lane x : lane32 x -> s32 (Z.lxor x (Z.shiftr x 31) - Z.shiftr x 31) = l_abs 32 x.
Proof.
  intros H; rewrite shiftr31 by auto. unfold l_abs, s32. destruct (Z.ltb_spec x 0).
  - rewrite Z.lxor_m1_r. unfold Z.lnot. f_equal. lia.
  - rewrite Z.lxor_0_r. f_equal; lia.
Qed.
(** the SSE2 abs (sign mask, xor, subtract) is the wrapped absolute value in every lane, for all 2^32 lane values *)
Theorem abs_epi32_sse2_spec a0 a1 a2 a3 : lane32 a0 -> lane32 a1 -> lane32 a2 -> lane32 a3 ->
  abs_epi32_sse2 [a0; a1; a2; a3] = v_abs 32 [a0; a1; a2; a3].
Proof.
  intros H0 H1 H2 H3. unfold abs_epi32_sse2, sub_epi32, xor_si128, srai_epi32, v_abs. cbn [map map2].
  rewrite !abs_lane by auto. reflexivity.
Qed.

(** the pre-fix unary minus (xor with the sign bit) is NOT negation: it adds 2^31 *)
Definition neg_by_signflip (x : Z) : Z := wrap 32 (x + 2 ^ 31).
Theorem neg_by_signflip_refuted x : lane32 x -> neg_by_signflip x = l_neg 32 x -> x = 2 ^ 30 \/ x = - 2 ^ 30.
Proof.
  intros [H1 H2] E. unfold neg_by_signflip, l_neg, wrap in E. change (2 ^ (32 - 1)) with 2147483648 in *. change (2 ^ 32) with 4294967296 in *. change (2 ^ 31) with 2147483648 in *. change (2 ^ 30) with 1073741824.
  pose proof (Z.div_mod (x + 2147483648 + 2147483648) 4294967296 ltac:(lia)).
  pose proof (Z.mod_pos_bound (x + 2147483648 + 2147483648) 4294967296 ltac:(lia)).
  pose proof (Z.div_mod (0 - x + 2147483648) 4294967296 ltac:(lia)).
  pose proof (Z.mod_pos_bound (0 - x + 2147483648) 4294967296 ltac:(lia)).
  lia.
Qed.

(* ---------------------------------------------------------------- masks *)
Lemma mask_to_array_nth n mask i : (i < n)%nat -> nth i (mask_to_array n mask) false = lane_enabled mask (n - i - 1).
Proof. intros; unfold mask_to_array, lane_enabled. apply (map_seq_nth (fun i => Z.testbit mask (Z.of_nat (n - i - 1)))); auto. Qed.

Lemma store_fold n mask v : forall (k : nat) mem q, (k <= n)%nat ->
  fold_left (fun m i => if nth i (mask_to_array n mask) false
                        then (fun q => if (q =? n - i - 1)%nat then nth (n - i - 1) v 0 else m q) else m)
            (seq 0 k) mem q
  = if (n - k <=? q)%nat && (q <? n)%nat && lane_enabled mask q then nth q v 0 else mem q.
Proof.
  induction k as [|k IH]; intros mem q Hk.
  - cbn [seq fold_left]. destruct (Nat.leb_spec (n - 0) q), (Nat.ltb_spec q n); cbn; try reflexivity; lia.
  - rewrite seq_S, fold_left_app. cbn [fold_left Nat.add]. rewrite mask_to_array_nth by lia.
    destruct (lane_enabled mask (n - k - 1)) eqn:E.
    + destruct (Nat.eqb_spec q (n - k - 1)).
      * subst q. rewrite E. destruct (Nat.leb_spec (n - S k) (n - k - 1)), (Nat.ltb_spec (n - k - 1) n); cbn; try reflexivity; lia.
      * rewrite IH by lia.
        destruct (Nat.leb_spec (n - k) q), (Nat.leb_spec (n - S k) q); try lia; reflexivity.
    + rewrite IH by lia.
      destruct (Nat.leb_spec (n - k) q), (Nat.leb_spec (n - S k) q); try lia; try reflexivity.
      assert (q = n - k - 1)%nat by lia. subst q. rewrite E. rewrite !andb_false_r. reflexivity.
Qed.
(** the fallback mask_store writes lane j iff bit j of the mask is set and leaves every other element as it was *)
Theorem mask_store_fb_spec n mask v mem q : mask_store_fb n mask v mem q = mask_store_spec n mask v mem q.
Proof.
  unfold mask_store_fb, mask_store_spec. rewrite store_fold by lia.
  replace (n - n)%nat with 0%nat by lia. reflexivity.
Qed.

Lemma load_fold n mask mem : forall (k : nat) r q, (k <= n)%nat ->
  fold_left (fun (r : nat -> Z) i => if nth i (mask_to_array n mask) false
                        then (fun q => if (q =? n - i - 1)%nat then mem (n - i - 1)%nat else r q) else r)
            (seq 0 k) r q
  = if (n - k <=? q)%nat && (q <? n)%nat && lane_enabled mask q then mem q else r q.
Proof.
  induction k as [|k IH]; intros r q Hk.
  - cbn [seq fold_left]. destruct (Nat.leb_spec (n - 0) q), (Nat.ltb_spec q n); cbn; try reflexivity; lia.
  - rewrite seq_S, fold_left_app. cbn [fold_left Nat.add]. rewrite mask_to_array_nth by lia.
    destruct (lane_enabled mask (n - k - 1)) eqn:E.
    + destruct (Nat.eqb_spec q (n - k - 1)).
      * subst q. rewrite E. destruct (Nat.leb_spec (n - S k) (n - k - 1)), (Nat.ltb_spec (n - k - 1) n); cbn; try reflexivity; lia.
      * rewrite IH by lia.
        destruct (Nat.leb_spec (n - k) q), (Nat.leb_spec (n - S k) q); try lia; reflexivity.
    + rewrite IH by lia.
      destruct (Nat.leb_spec (n - k) q), (Nat.leb_spec (n - S k) q); try lia; try reflexivity.
      assert (q = n - k - 1)%nat by lia. subst q. rewrite E. rewrite !andb_false_r. reflexivity.
Qed.
Theorem mask_load_fb_spec n mask mem : mask_load_fb n mask mem = mask_load_spec n mask mem.
Proof.
  unfold mask_load_fb, mask_load_spec. apply map_ext_in. intros q Hq. apply in_seq in Hq.
  rewrite load_fold by lia. replace (n - n)%nat with 0%nat by lia.
  destruct (Nat.ltb_spec q n); [|lia]. cbn. reflexivity.
Qed.
