From Coq Require Import Arith List Lia Bool FinFun.
From FastorV Require Import Base.Shape Model.Views Model.RandomViews Proofs.ViewsProofs.
Import ListNotations.

Lemma idx2_nth ncols it0 it1 i j :
  i < length it0 -> j < length it1 ->
  nth (i * length it1 + j) (idx2 ncols it0 it1) 0 = nth i it0 0 * ncols + nth j it1 0.
Proof.
  revert i. induction it0 as [|a it0 IH]; intros i Hi Hj; simpl in *; [lia|].
  destruct i as [|i].
  - simpl. rewrite app_nth1 by (rewrite map_length; exact Hj).
    rewrite (nth_indep _ 0 ((fun b => a * ncols + b) 0)) by (rewrite map_length; exact Hj). rewrite map_nth. reflexivity.
  - rewrite app_nth2 by (rewrite map_length; simpl; lia). rewrite map_length.
    replace (S i * length it1 + j - length it1) with (i * length it1 + j) by (simpl; lia).
    apply IH; lia.
Qed.

Lemma idx2_length ncols it0 it1 : length (idx2 ncols it0 it1) = length it0 * length it1.
Proof. induction it0 as [|a it0 IH]; simpl; [reflexivity|]. rewrite app_length, map_length, IH. reflexivity. Qed.

(** the precomputed flat index of (it0(i), it1(j)) is the row-major offset of that element *)
Lemma idx2_is_flat nrows ncols it0 it1 i j :
  i < length it0 -> j < length it1 -> nth j it1 0 < ncols ->
  nth (i * length it1 + j) (idx2 ncols it0 it1) 0 = flat [nrows; ncols] [nth i it0 0; nth j it1 0].
Proof. intros Hi Hj Hc. rewrite idx2_nth by assumption. simpl. lia. Qed.

Lemma NoDup_app_intro {A} (l1 l2 : list A) : NoDup l1 -> NoDup l2 -> (forall x, In x l1 -> In x l2 -> False) -> NoDup (l1 ++ l2).
Proof.
  intros H1 H2 Hd. induction H1 as [|a l1 Ha H1 IH]; simpl; [exact H2|].
  constructor.
  - intros Hin. apply in_app_or in Hin. destruct Hin as [Hin|Hin]; [contradiction | apply (Hd a); [left; reflexivity | exact Hin]].
  - apply IH. intros x Hx1 Hx2. apply (Hd x); [right; exact Hx1 | exact Hx2].
Qed.

Lemma idx2_NoDup ncols it0 it1 : NoDup it0 -> NoDup it1 -> (forall b, In b it1 -> b < ncols) -> NoDup (idx2 ncols it0 it1).
Proof.
  intros H0 H1 Hb. induction H0 as [|a it0 Ha H0 IH]; simpl; [constructor|].
  apply NoDup_app_intro.
  - apply Injective_map_NoDup; [intros x y E; lia | exact H1].
  - exact IH.
  - intros x Hx1 Hx2. apply in_map_iff in Hx1. destruct Hx1 as [b [<- Hb1]].
    unfold idx2 in Hx2. apply in_flat_map in Hx2. destruct Hx2 as [a' [Ha' Hx2]].
    apply in_map_iff in Hx2. destruct Hx2 as [b' [E Hb2]].
    pose proof (Hb b Hb1). pose proof (Hb b' Hb2).
    assert (a = a') by nia. subst a'. contradiction.
Qed.

Section Proofs.
  Variable T : Type.

  (** C19 read: elements at exactly the indexed positions, in index-tensor order, repeats allowed *)
  Theorem rv_read_exact (A : nat -> T) idx k d : k < length idx -> nth k (rv_read A idx) d = A (nth k idx 0).
  Proof. intros Hk. unfold rv_read. rewrite (nth_indep _ d (A 0)) by (rewrite map_length; exact Hk). apply map_nth. Qed.
  Lemma rv_read_length (A : nat -> T) idx : length (rv_read A idx) = length idx.
  Proof. apply map_length. Qed.

  (** C19 write: with duplicate-free indices exactly the indexed positions are updated *)
  Theorem rv_write_exact op idx (rhs : nat -> T) (A : nat -> T) : NoDup idx ->
    (forall k, k < length idx -> rv_write op idx rhs A (nth k idx 0) = op (A (nth k idx 0)) (rhs k)) /\
    (forall p, ~ In p idx -> rv_write op idx rhs A p = A p).
  Proof.
    intros Hnd. unfold rv_write.
    destruct (scatter_spec T (fun k => nth k idx 0) (fun k B => op (B (nth k idx 0)) (rhs k)) (length idx) A) as [Ha Hb].
    - intros i j Hi Hj E. apply (proj1 (NoDup_nth idx 0) Hnd i j Hi Hj E).
    - intros i B B' Hi Hsame. f_equal. apply Hsame. intros i' Hi' E.
      assert (i' = i) by (apply (proj1 (NoDup_nth idx 0) Hnd); try lia; exact E). lia.
    - split; [exact Ha|]. intros p Hp. apply Hb. intros i Hi E. apply Hp. rewrite <- E. apply nth_In. exact Hi.
  Qed.

  (** C19 mask: positions where the mask is true get op(old, rhs at the same position); all others unchanged *)
  Theorem filter_write_exact op mask (rhs : nat -> T) n (A : nat -> T) :
    forall p, filter_write op mask rhs n A p = if (p <? n) && mask p then op (A p) (rhs p) else A p.
  Proof.
    unfold filter_write. induction n as [|n IH]; intros p.
    - simpl. reflexivity.
    - rewrite seq_S, fold_left_app. cbn [fold_left Nat.add].
      set (B := fold_left (fun B p => if mask p then upd1 B p (op (B p) (rhs p)) else B) (seq 0 n) A) in *.
      assert (HBn : B n = A n). { rewrite (IH n). rewrite Nat.ltb_irrefl. reflexivity. }
      destruct (mask n) eqn:Em.
      + unfold upd1. destruct (Nat.eqb_spec p n) as [->|Hne].
        * rewrite HBn, Em. replace (n <? S n) with true by (symmetry; apply Nat.ltb_lt; lia). reflexivity.
        * rewrite IH. destruct (Nat.ltb_spec p n), (Nat.ltb_spec p (S n)); try reflexivity; lia.
      + destruct (Nat.eqb_spec p n) as [->|Hne].
        * rewrite HBn, Em, andb_false_r. reflexivity.
        * rewrite IH. destruct (Nat.ltb_spec p n), (Nat.ltb_spec p (S n)); try reflexivity; lia.
  Qed.
End Proofs.
