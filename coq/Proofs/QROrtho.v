(** Orthonormality of the modified Gram-Schmidt factor Q (qr_mgsr_dispatcher as modelled in
    Proofs/QRProofs.v) in exact arithmetic: if the normalisation value stored in R(i,i) is a square
    root of the squared norm of the working column (nrm v * nrm v = sum_k v_k^2) and never vanishes,
    then after n steps the first n columns of Q are orthonormal: Q^T Q = I.  Every size (rows M,
    columns n), any field. *)
From Coq Require Import Arith List Lia Bool Ring.
From FastorV Require Import Base.Scalar Base.BigSum Base.Field Proofs.QRProofs Proofs.ClosedForms.
Import ListNotations.

Section Ortho.
  Variable S : Scalar.
  Hypothesis F : FieldLaws S.
  Let L := f_ring S F.
  Add Ring SRingQ : (S_ring_theory S L).
  Notation "a +s b" := (sadd S a b) (at level 50, left associativity).
  Notation "a -s b" := (ssub S a b) (at level 50, left associativity).
  Notation "a *s b" := (smul S a b) (at level 40, left associativity).
  Variable M : nat.
  Variable nrm : (nat -> S) -> S.
  Definition dotc (x y : nat -> S) : S := sum_n (fun k => x k *s y k) M.
  Hypothesis nrm_sq : forall v, nrm v *s nrm v = dotc v v.

  Lemma div_is_mul_inv a r : r <> s0 S -> sdiv S a r = a *s sdiv S (s1 S) r.
  Proof.
    intros Hr. rewrite <- (mul_div S F (a *s sdiv S (s1 S) r) r Hr). f_equal.
    rewrite <- (mul_assoc S L), (div_mul S F _ _ Hr). ring.
  Qed.
  Lemma inv_mul r : r <> s0 S -> sdiv S (s1 S) r *s r = s1 S.
  Proof. intros Hr. apply (div_mul S F); exact Hr. Qed.

  Lemma dotc_comm x y : dotc x y = dotc y x.
  Proof. unfold dotc. apply (sum_n_ext S). intros; ring. Qed.
  Lemma dotc_scale_l c x y : dotc (fun k => x k *s c) y = dotc x y *s c.
  Proof. unfold dotc. rewrite <- (sum_n_mul_r S L). apply (sum_n_ext S). intros; ring. Qed.
  Lemma dotc_scale_r c x y : dotc x (fun k => y k *s c) = dotc x y *s c.
  Proof. rewrite dotc_comm, dotc_scale_l, dotc_comm. reflexivity. Qed.
  Lemma dotc_sub_r x y z c : dotc x (fun k => y k -s z k *s c) = dotc x y -s dotc x z *s c.
  Proof.
    unfold dotc. transitivity (sum_n (fun k => x k *s y k +s (x k *s z k) *s sneg S c) M).
    - apply (sum_n_ext S). intros; ring.
    - rewrite (sum_n_add S L), (sum_n_mul_r S L). ring.
  Qed.

  Notation stp := (step S M nrm).
  Notation rn := (run S M nrm).
  Definition qcol (s : st S) (p : nat) : nat -> S := fun k => Qm S s k p.
  Definition acol (s : st S) (j : nat) : nat -> S := fun k => Aw S s k j.

  Definition OInv (i : nat) (s : st S) : Prop :=
    (forall p, p < i -> dotc (qcol s p) (qcol s p) = s1 S) /\
    (forall p q, p < i -> q < i -> p <> q -> dotc (qcol s p) (qcol s q) = s0 S) /\
    (forall p j, p < i -> i <= j -> dotc (qcol s p) (acol s j) = s0 S).

  Lemma oinv_step i s : OInv i s -> nrm (acol s i) <> s0 S -> OInv (Datatypes.S i) (stp s i).
  Proof.
    intros (Ha & Hb & Hc) Hp.
    set (r := nrm (acol s i)) in *. set (ir := sdiv S (s1 S) r).
    assert (Hir : ir *s r = s1 S) by (apply inv_mul; exact Hp).
    (* the new column of Q and the old ones *)
    assert (Qnew : forall k, Qm S (stp s i) k i = acol s i k *s ir).
    { intros k. cbn [step Qm]. rewrite Nat.eqb_refl. unfold acol. apply div_is_mul_inv. exact Hp. }
    assert (Qold : forall k p, p <> i -> Qm S (stp s i) k p = Qm S s k p).
    { intros k p Hpi. cbn [step Qm]. destruct (Nat.eqb_spec p i); [contradiction | reflexivity]. }
    assert (Dnew : forall x, dotc x (qcol (stp s i) i) = dotc x (acol s i) *s ir).
    { intros x. rewrite <- dotc_scale_r. unfold dotc. apply (sum_n_ext S). intros k _. unfold qcol. rewrite Qnew. reflexivity. }
    assert (Dold : forall x p, p <> i -> dotc x (qcol (stp s i) p) = dotc x (qcol s p)).
    { intros x p Hpi. unfold dotc. apply (sum_n_ext S). intros k _. unfold qcol. rewrite Qold by exact Hpi. reflexivity. }
    assert (Dold2 : forall p q, p <> i -> q <> i -> dotc (qcol (stp s i) p) (qcol (stp s i) q) = dotc (qcol s p) (qcol s q)).
    { intros p q Hpi Hqi. unfold dotc. apply (sum_n_ext S). intros k _. unfold qcol. rewrite !Qold by assumption. reflexivity. }
    assert (DoldL : forall y p, p <> i -> dotc (qcol (stp s i) p) y = dotc (qcol s p) y).
    { intros y p Hpi. unfold dotc. apply (sum_n_ext S). intros k _. unfold qcol. rewrite Qold by exact Hpi. reflexivity. }
    assert (Hii : dotc (qcol (stp s i) i) (qcol (stp s i) i) = s1 S).
    { rewrite Dnew. rewrite (dotc_comm (qcol (stp s i) i) (acol s i)), Dnew. rewrite <- nrm_sq. fold r.
      transitivity ((ir *s r) *s (ir *s r)); [ring | rewrite Hir; ring]. }
    assert (Hpi0 : forall p, p < i -> dotc (qcol (stp s i) p) (qcol (stp s i) i) = s0 S).
    { intros p Hlt. rewrite Dnew. rewrite DoldL by lia. rewrite (Hc p i Hlt (le_n i)). ring. }
    split; [|split].
    - intros p Hlt. destruct (Nat.eq_dec p i) as [->|Hne]; [exact Hii|].
      rewrite Dold2 by exact Hne. apply Ha. lia.
    - intros p q Hp' Hq' Hpq. destruct (Nat.eq_dec q i) as [->|Hqi].
      + apply Hpi0. lia.
      + destruct (Nat.eq_dec p i) as [->|Hpi].
        * rewrite dotc_comm. apply Hpi0. lia.
        * rewrite Dold2 by assumption. apply Hb; lia.
    - intros p j Hp' Hj.
      (* the updated working column j > i *)
      assert (Anew : forall k, acol (stp s i) j k = acol s j k -s qcol (stp s i) i k *s dotc (qcol (stp s i) i) (acol s j)).
      { intros k. unfold acol, qcol. cbn [step Aw Rm Qm]. rewrite !Nat.eqb_refl.
        destruct (Nat.ltb_spec i j); [|lia]. destruct (Nat.eqb_spec j i); [lia|]. reflexivity. }
      transitivity (dotc (qcol (stp s i) p) (fun k => acol s j k -s qcol (stp s i) i k *s dotc (qcol (stp s i) i) (acol s j))).
      { unfold dotc. apply (sum_n_ext S). intros k _. rewrite Anew. reflexivity. }
      rewrite dotc_sub_r.
      destruct (Nat.eq_dec p i) as [->|Hpi].
      + rewrite Hii. ring.
      + rewrite (Hpi0 p) by lia. rewrite DoldL by exact Hpi. rewrite (Hc p j) by lia. ring.
  Qed.

  Lemma oinv_run A0 n : pivots_ok S M nrm A0 n -> OInv n (rn A0 n).
  Proof.
    induction n as [|n IH]; intros Hp.
    - repeat split; intros; lia.
    - rewrite run_S. apply oinv_step; [apply IH; intros i Hi; apply Hp; lia | apply Hp; lia].
  Qed.

  (** C13: the columns of Q are orthonormal, Q^T Q = I, for every size *)
  Theorem mgs_orthonormal A0 n : pivots_ok S M nrm A0 n ->
    forall p q, p < n -> q < n ->
      sum_n (fun k => Qm S (rn A0 n) k p *s Qm S (rn A0 n) k q) M = if p =? q then s1 S else s0 S.
  Proof.
    intros Hp p q Hpn Hqn. destruct (oinv_run A0 n Hp) as (Ha & Hb & _).
    destruct (Nat.eqb_spec p q) as [->|Hne]; [apply Ha; exact Hqn | apply Hb; assumption].
  Qed.
End Ortho.

(** non-vacuity: over exact real arithmetic the Euclidean norm meets the hypothesis on [nrm] *)
From Coq Require Import Reals Lra.
From FastorV Require Import Base.Rounding Proofs.SumRounding.
Lemma RS_field : FieldLaws RS.
Proof.
  constructor; [exact RS_laws | |]; intros a b Hb; simpl in *; field; exact Hb.
Qed.
Lemma sqrt_norm_sq M (v : nat -> R) :
  (sqrt (dotc RS M v v) * sqrt (dotc RS M v v))%R = dotc RS M v v.
Proof.
  apply sqrt_sqrt. unfold dotc, sum_n, sum_from. simpl.
  generalize (seq 0 M). intros l.
  assert (H : forall x0, (0 <= x0)%R -> (0 <= fold_left (fun acc k => acc + v k * v k) l x0)%R).
  { induction l as [|k l IH]; intros x0 Hx; simpl; [exact Hx|]. apply IH. pose proof (Rle_0_sqr (v k)) as Hs. unfold Rsqr in Hs. lra. }
  apply H. lra.
Qed.
