(** The recursive block inversion of inverse_dispatcher (unary_inv_op.h), as an identity of a block algebra:
    blocks form a (non-commutative) ring-like structure; the split point plays no role, so every size class
    (4|5, 8|9, 16|17, 32|33, 64|65, ...) is covered by the same identity.
      c_inva = c*ai;  bb = inverse(d - c_inva*b);  inva_b = ai*b;  bb_c_inva = bb*c_inva;
      aa = ai + inva_b*bb_c_inva;  ab = -(inva_b*bb);  ba = -bb_c_inva
    Given ai inverse of a and bb inverse of the Schur complement, [aa ab; ba bb] is a two-sided inverse of [a b; c d]. *)
From Coq Require Import Setoid.
Section Schur.
  Variable R : Type.
  Variables (add mul : R -> R -> R) (neg : R -> R) (zero one : R).
  Notation "x + y" := (add x y). Notation "x * y" := (mul x y). Notation "- x" := (neg x).
  Hypothesis addC : forall x y, x + y = y + x.
  Hypothesis addA : forall x y z, x + (y + z) = (x + y) + z.
  Hypothesis add0 : forall x, zero + x = x.
  Hypothesis addN : forall x, x + - x = zero.
  Hypothesis mulA : forall x y z, x * (y * z) = (x * y) * z.
  Hypothesis mul1l : forall x, one * x = x.
  Hypothesis mul1r : forall x, x * one = x.
  Hypothesis distL : forall x y z, x * (y + z) = x * y + x * z.
  Hypothesis distR : forall x y z, (x + y) * z = x * z + y * z.

  Lemma add0r x : x + zero = x. Proof. rewrite addC; apply add0. Qed.
  Lemma addNl x : - x + x = zero. Proof. rewrite addC; apply addN. Qed.
  Lemma cancel_l x y z : x + y = x + z -> y = z.
  Proof. intros H. assert (E : - x + (x + y) = - x + (x + z)) by (rewrite H; reflexivity). rewrite !addA, addNl, !add0 in E. exact E. Qed.
  Lemma mul0r x : x * zero = zero.
  Proof. apply (cancel_l (x * zero)). rewrite <- distL, add0r, add0r. reflexivity. Qed.
  Lemma mul0l x : zero * x = zero.
  Proof. apply (cancel_l (zero * x)). rewrite <- distR, add0r, add0r. reflexivity. Qed.
  Lemma mulNr x y : x * - y = - (x * y).
  Proof. apply (cancel_l (x * y)). rewrite <- distL, !addN. apply mul0r. Qed.
  Lemma mulNl x y : - x * y = - (x * y).
  Proof. apply (cancel_l (x * y)). rewrite <- distR, !addN. apply mul0l. Qed.

  Variables a b c d ai bb : R.
  Hypothesis ai_l : ai * a = one. Hypothesis ai_r : a * ai = one.
  Let s := d + - (c * ai * b).                       (* the Schur complement d - c*inv(a)*b *)
  Hypothesis bb_l : bb * s = one. Hypothesis bb_r : s * bb = one.

  Let c_inva := c * ai. Let inva_b := ai * b. Let bb_c_inva := bb * c_inva.
  Definition aa := ai + inva_b * bb_c_inva.
  Definition ab := - (inva_b * bb).
  Definition ba := - bb_c_inva.

  Lemma d_eq : d = s + c * ai * b.
  Proof. unfold s. rewrite <- addA, addNl, add0r. reflexivity. Qed.

  (** [a b; c d] * [aa ab; ba bb] = [1 0; 0 1] *)
  Theorem schur_right_inverse :
    a * aa + b * ba = one /\ a * ab + b * bb = zero /\ c * aa + d * ba = zero /\ c * ab + d * bb = one.
  Proof.
    unfold aa, ab, ba, bb_c_inva, inva_b, c_inva. repeat split.
    - rewrite distL, ai_r. rewrite (mulA a (ai * b)), (mulA a ai b), ai_r, mul1l. rewrite mulNr, <- addA, addN, add0r. reflexivity.
    - rewrite mulNr, (mulA a (ai * b)), (mulA a ai b), ai_r, mul1l. apply addNl.
    - rewrite distL, mulNr. rewrite d_eq at 1. rewrite distR.
      rewrite (mulA s bb (c * ai)), bb_r, mul1l.
      (* c*ai + c*(ai*b*(bb*(c*ai))) + -(c*ai + c*ai*b*(bb*(c*ai))) *)
      rewrite (mulA c (ai * b)), (mulA c ai b). apply addN.
    - rewrite mulNr. rewrite d_eq at 1. rewrite distR, bb_r.
      rewrite (mulA c (ai * b) bb), (mulA c ai b). rewrite (addC one), addA, addNl, add0. reflexivity.
  Qed.

  (** [aa ab; ba bb] * [a b; c d] = [1 0; 0 1] *)
  Theorem schur_left_inverse :
    aa * a + ab * c = one /\ aa * b + ab * d = zero /\ ba * a + bb * c = zero /\ ba * b + bb * d = one.
  Proof.
    unfold aa, ab, ba, bb_c_inva, inva_b, c_inva. repeat split.
    - rewrite distR, ai_l. rewrite <- (mulA (ai * b) (bb * (c * ai)) a), <- (mulA bb (c * ai) a), <- (mulA c ai a), ai_l, mul1r.
      rewrite mulNl, <- (mulA (ai * b) bb c), <- addA, addN, add0r. reflexivity.
    - rewrite distR, mulNl. rewrite d_eq at 1. rewrite distL.
      rewrite <- (mulA (ai * b) bb s), bb_l, mul1r.
      rewrite <- (mulA (ai * b) (bb * (c * ai)) b), <- (mulA bb (c * ai) b).
      rewrite <- (mulA (ai * b) bb (c * ai * b)). apply addN.
    - rewrite mulNl, <- (mulA bb (c * ai) a), <- (mulA c ai a), ai_l, mul1r. apply addNl.
    - rewrite mulNl. rewrite d_eq at 1. rewrite distL, bb_l.
      rewrite <- (mulA bb (c * ai) b). rewrite (addC one), addA, addNl, add0. reflexivity.
  Qed.
End Schur.
