From Coq Require Import Arith List Lia Bool.
From FastorV Require Import Base.Shape Model.Views Model.Layout Proofs.ViewsProofs.
Import ListNotations.

Lemma in_range_app d1 d2 i1 i2 : length d1 = length i1 ->
  (in_range (d1 ++ d2) (i1 ++ i2) <-> in_range d1 i1 /\ in_range d2 i2).
Proof.
  revert i1. induction d1 as [|d d1 IH]; intros [|i i1] L; simpl in *; try discriminate.
  - tauto.
  - rewrite IH by lia. tauto.
Qed.

Lemma in_range_rev dims idx : in_range dims idx -> in_range (rev dims) (rev idx).
Proof.
  revert idx. induction dims as [|d ds IH]; intros [|i is] H; simpl in *; try contradiction; [exact I|].
  destruct H as [Hi H]. apply in_range_app.
  - rewrite !rev_length. symmetry. apply in_range_length. exact H.
  - split; [apply IH; exact H | simpl; auto].
Qed.

Lemma prod_app d1 d2 : prod (d1 ++ d2) = prod d1 * prod d2.
Proof. induction d1 as [|d d1 IH]; simpl; [lia|]. rewrite IH. lia. Qed.
Lemma prod_rev dims : prod (rev dims) = prod dims.
Proof. induction dims as [|d ds IH]; simpl; [reflexivity|]. rewrite prod_app, IH. simpl. lia. Qed.
Lemma In_rev_pos dims : (forall d, In d dims -> 0 < d) -> forall d, In d (rev dims) -> 0 < d.
Proof. intros H d Hin. apply H. apply in_rev. exact Hin. Qed.

Section Proofs.
  Variable T : Type.
  Variable dims : list nat.
  Hypothesis Hpos : forall d, In d dims -> 0 < d.

  Lemma rm_of_counter_range c : in_range dims (rev (unflat (rev dims) c)).
  Proof.
    pose proof (unflat_in_range (rev dims) c (In_rev_pos dims Hpos)) as R.
    apply in_range_rev in R. rewrite rev_involutive in R. exact R.
  Qed.

  Lemma rm_of_counter_lt c : rm_of_counter dims c < prod dims.
  Proof. unfold rm_of_counter. apply flat_lt. apply rm_of_counter_range. Qed.

  Lemma rm_of_counter_inj c1 c2 : c1 < prod dims -> c2 < prod dims -> rm_of_counter dims c1 = rm_of_counter dims c2 -> c1 = c2.
  Proof.
    intros H1 H2 E. unfold rm_of_counter in E.
    apply flat_inj in E; try apply rm_of_counter_range.
    assert (E' : unflat (rev dims) c1 = unflat (rev dims) c2) by (rewrite <- (rev_involutive (unflat (rev dims) c1)), E, rev_involutive; reflexivity).
    rewrite <- (flat_unflat (rev dims) c1 (In_rev_pos dims Hpos)), <- (flat_unflat (rev dims) c2 (In_rev_pos dims Hpos)), E' by (rewrite prod_rev; assumption).
    reflexivity.
  Qed.

  (* the counter of a multi-index is its column-major offset *)
  Lemma rm_of_cflat idx : in_range dims idx -> rm_of_counter dims (cflat dims idx) = flat dims idx /\ cflat dims idx < prod dims.
  Proof.
    intros R. unfold rm_of_counter, cflat. pose proof (in_range_rev dims idx R) as Rr.
    rewrite (unflat_flat _ _ Rr), rev_involutive. split; [reflexivity|].
    rewrite <- prod_rev. apply flat_lt. exact Rr.
  Qed.

  (** C20: torowmajor places element (i0,...,ik) at its column-major offset *)
  Theorem torowmajor_spec (a : nat -> T) idx : in_range dims idx ->
    torowmajor dims a (cflat dims idx) = a (flat dims idx).
  Proof.
    intros R. unfold torowmajor. destruct (rm_of_cflat idx R) as [E Hlt].
    apply Nat.ltb_lt in Hlt. rewrite Hlt, E. reflexivity.
  Qed.

  (** C20: tocolumnmajor reads the buffer as column-major: result(i0,...,ik) = buf[colmajor offset]
      (what Tensor(ptr, ColumnMajor) relies on) *)
  Theorem tocolumnmajor_spec (b : nat -> T) idx : in_range dims idx ->
    tocolumnmajor dims b (flat dims idx) = b (cflat dims idx).
  Proof.
    intros R. unfold tocolumnmajor. destruct (rm_of_cflat idx R) as [E Hlt]. rewrite <- E.
    destruct (scatter_spec T (rm_of_counter dims) (fun c _ => b c) (prod dims) b) as [Ha _].
    - intros i j Hi Hj. apply rm_of_counter_inj; assumption.
    - intros; reflexivity.
    - apply Ha. exact Hlt.
  Qed.

  (** C20: the two conversions are exact inverses, for every rank and shape *)
  Theorem torowmajor_tocolumnmajor (b : nat -> T) c : c < prod dims -> torowmajor dims (tocolumnmajor dims b) c = b c.
  Proof.
    intros Hc. unfold torowmajor. apply Nat.ltb_lt in Hc as Hc'. rewrite Hc'.
    unfold tocolumnmajor.
    destruct (scatter_spec T (rm_of_counter dims) (fun c _ => b c) (prod dims) b) as [Ha _].
    - intros i j Hi Hj. apply rm_of_counter_inj; assumption.
    - intros; reflexivity.
    - apply Ha. exact Hc.
  Qed.

  Theorem tocolumnmajor_torowmajor (a : nat -> T) p : p < prod dims -> tocolumnmajor dims (torowmajor dims a) p = a p.
  Proof.
    intros Hp.
    pose proof (unflat_in_range dims p Hpos) as R.
    rewrite <- (flat_unflat dims p Hpos Hp) at 1 2.
    rewrite (tocolumnmajor_spec _ _ R), (torowmajor_spec _ _ R). rewrite (flat_unflat dims p Hpos Hp). reflexivity.
  Qed.
End Proofs.

(** maps are aliases: any history of operations applied alternately through the source and
    through maps of any shape equals the abstract operations applied to one array *)
Theorem map_refines_tensor (T : Type) n (h : list (bool * list nat * mop T)) (b : nat -> T) :
  run_history n h b = fold_left (fun b x => apply_mop n (snd x) b) h b.
Proof.
  revert b. induction h as [|[[via shape] o] h IH]; intros b; simpl; [reflexivity|]. apply IH.
Qed.

(** nested initializer lists / row lists are stored row-major *)
Lemma concat_rows_rowmajor {A} (rows : list (list A)) N i j d :
  (forall r, In r rows -> length r = N) -> i < length rows -> j < N ->
  nth (i * N + j) (concat rows) d = nth j (nth i rows []) d.
Proof.
  revert i. induction rows as [|r rows IH]; intros i H Hi Hj; simpl in *; [lia|].
  assert (Lr : length r = N) by (apply H; left; reflexivity).
  destruct i as [|i].
  - simpl. rewrite app_nth1 by lia. reflexivity.
  - rewrite app_nth2 by (simpl; lia). rewrite Lr. replace (S i * N + j - N) with (i * N + j) by (simpl; lia).
    apply IH; [intros; apply H; right; assumption | lia | exact Hj].
Qed.
