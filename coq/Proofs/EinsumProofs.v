From Coq Require Import Arith List Lia Bool.
From FastorV Require Import Base.Scalar Base.BigSum Base.Shape Model.Einsum.
Import ListNotations.

Lemma uniq_In l ls : In l (uniq ls) <-> In l ls.
Proof.
  induction ls as [|k r IH]; simpl; [tauto|]. rewrite filter_In, IH. split.
  - intros [E|[H _]]; [left; exact E | right; exact H].
  - intros [E|H]; [left; exact E|].
    destruct (Nat.eqb_spec l k) as [->|Hne]; [left; reflexivity | right; split; [exact H | reflexivity]].
Qed.
Lemma uniq_NoDup ls : NoDup (uniq ls).
Proof.
  induction ls as [|k r IH]; simpl; [constructor|]. constructor.
  - rewrite filter_In. intros [_ H]. rewrite Nat.eqb_refl in H. discriminate.
  - apply NoDup_filter. exact IH.
Qed.

Section Proofs.
  Variable S : Scalar.
  Hypothesis L : RingLaws S.
  Notation "a +s b" := (sadd S a b) (at level 50, left associativity).

  (** scatter-add form of the loop nest: position q ends up with its old value plus the sum of
      the terms of exactly those iterations whose output index is q *)
  Lemma nloop_scatter (idx : env -> nat) (tm : env -> S) ls :
    forall e (out : nat -> S) q,
      nloop ls (fun e (o : nat -> S) => fun q => if q =? idx e then o q +s tm e else o q) e out q
      = out q +s nsum ls (fun e' => if q =? idx e' then tm e' else s0 S) e.
  Proof.
    induction ls as [|[l d] r IH]; intros e out q; simpl.
    - destruct (q =? idx e); [reflexivity | rewrite (add_0_r S L); reflexivity].
    - induction d as [|d IHd].
      + simpl. unfold sum_n, sum_from; simpl. rewrite (add_0_r S L). reflexivity.
      + rewrite seq_S, fold_left_app. cbn [fold_left Nat.add]. rewrite IH, IHd, (sum_n_S S).
        rewrite (add_assoc S L). reflexivity.
  Qed.

  (** two leaf functions that agree on all in-range assignments give the same nested sum *)
  Lemma nsum_ext_inrange ls (F G : env -> S) : NoDup (map fst ls) ->
    forall e, (forall e', (forall l d, In (l, d) ls -> e' l < d) -> (forall l, ~ In l (map fst ls) -> e' l = e l) -> F e' = G e') ->
    nsum ls F e = nsum ls G e.
  Proof.
    induction ls as [|[l d] r IH]; intros Hnd e H; simpl.
    - apply H; [intros l d []| reflexivity].
    - apply (sum_n_ext S). intros x Hx. inversion Hnd as [|? ? Hnotin Hnd']; subst.
      apply IH; [exact Hnd'|]. intros e' Hr Hout. apply H.
      + intros l' d' [E|Hin]; [inversion E; subst|apply Hr; exact Hin].
        rewrite (Hout l' Hnotin). unfold eupd. rewrite Nat.eqb_refl. exact Hx.
      + intros l' Hl'. simpl in Hl'. rewrite Hout by (intros Hin; apply Hl'; right; exact Hin).
        unfold eupd. destruct (Nat.eqb_spec l' l) as [->|_]; [exfalso; apply Hl'; left; reflexivity | reflexivity].
  Qed.

  (** C03, general route: for every pair of index lists, every shape, every free multi-index
      o inside the result extents: the loop nest leaves the Einstein sum at position
      flat(out extents, o) *)
  Theorem einsum_general_exact I J dimsA dimsB (A B : nat -> S) o :
    in_range (out_dims I J dimsA dimsB) o ->
    einsum_general I J dimsA dimsB A B (flat (out_dims I J dimsA dimsB) o) = einsum_spec I J dimsA dimsB A B o.
  Proof.
    intros Ro. unfold einsum_general, einsum_spec.
    rewrite (nloop_scatter (fun e => flat (out_dims I J dimsA dimsB) (map e (out_labels I J))) (term I J dimsA dimsB A B)).
    rewrite (add_0_l S L).
    apply nsum_ext_inrange.
    - unfold loop_labels. rewrite map_map. simpl. rewrite map_id. apply uniq_NoDup.
    - intros e' Hr _.
      assert (Re : in_range (out_dims I J dimsA dimsB) (map e' (out_labels I J))).
      { unfold out_dims. assert (Hsub : forall l, In l (out_labels I J) -> In l (uniq (I ++ J))) by (intros l Hl; unfold out_labels, free_labels in Hl; apply filter_In in Hl; apply Hl).
        revert Hsub. generalize (out_labels I J). induction l as [|k ks IHk]; intros Hsub; simpl; [constructor|].
        split; [|apply IHk; intros; apply Hsub; right; assumption].
        apply Hr. unfold loop_labels. apply in_map_iff. exists k. split; [reflexivity | apply Hsub; left; reflexivity]. }
      destruct (list_eq_dec Nat.eq_dec (map e' (out_labels I J)) o) as [E|E].
      + rewrite E, Nat.eqb_refl. reflexivity.
      + destruct (Nat.eqb_spec (flat (out_dims I J dimsA dimsB) o) (flat (out_dims I J dimsA dimsB) (map e' (out_labels I J)))) as [Ef|_]; [|reflexivity].
        exfalso. apply E. symmetry. apply (flat_inj _ _ _ Ro Re Ef).
  Qed.

  (** reindexing a double sum as one sum over the flattened index (used by every matmul re-routing) *)
  Lemma sum_n_prod (f : nat -> S) d m :
    sum_n (fun x => sum_n (fun y => f (x * m + y)) m) d = sum_n f (d * m).
  Proof.
    induction d as [|d IH]; [reflexivity|].
    rewrite (sum_n_S S), IH. replace (Datatypes.S d * m) with (d * m + m) by lia.
    rewrite (sum_n_split S L). reflexivity.
  Qed.

  (** gemm re-routing <p,c> x <c,q>: summing over the contracted label is the matrix product of the flat data *)
  Theorem einsum_gemm_rank2 M K N (A B : nat -> S) i j : i < M -> j < N -> 0 < N ->
    einsum_gemm M K N A B (i * N + j) = sum_n (fun k => smul S (A (flat [M; K] [i; k])) (B (flat [K; N] [k; j]))) K.
  Proof.
    intros Hi Hj HN. unfold einsum_gemm.
    assert (Hlt : i * N + j < M * N) by nia. apply Nat.ltb_lt in Hlt. rewrite Hlt.
    assert (Ed : (i * N + j) / N = i) by (rewrite Nat.div_add_l by lia; rewrite (Nat.div_small j N) by exact Hj; lia).
    assert (Em : (i * N + j) mod N = j) by (rewrite Nat.add_comm, Nat.mod_add by lia; apply Nat.mod_small; exact Hj).
    rewrite Ed, Em.
    apply (sum_n_ext S). intros k _. simpl. rewrite !Nat.add_0_r, !Nat.mul_1_r. reflexivity.
  Qed.

End Proofs.
