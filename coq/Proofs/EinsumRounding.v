(** Forward rounding-error bound of the general einsum loop nest (Model/Einsum.v) over the
    floating scalar of Base/Rounding.v: every result position q holds the rounded running sum, in
    loop order, of the rounded products accumulated into q; it is within ((1+u)^c - 1) * sum|terms|
    of the exact Einstein sum, c = number of terms accumulated into q (the product of the contracted
    extents), for every pair of index lists and every shape. *)
From Coq Require Import Reals Lra Lia List Arith.
From FastorV Require Import Base.Scalar Base.Shape Base.BigSum Base.Rounding Model.Einsum Proofs.SumRounding.
Import ListNotations.
Local Open Scope R_scope.

(** componentwise loop bodies run in lock step *)
Lemma nloop_pair {A B : Type} ls (fa : env -> A -> A) (fb : env -> B -> B) : forall e a b,
  nloop ls (fun e (st : A * B) => (fa e (fst st), fb e (snd st))) e (a, b) = (nloop ls fa e a, nloop ls fb e b).
Proof.
  induction ls as [|[l d] r IH]; intros e a b; [reflexivity|]. cbn [nloop].
  generalize (seq 0 d). intros xs. revert a b. induction xs as [|x xs IHx]; intros a b; [reflexivity|].
  cbn [fold_left]. rewrite IH. apply IHx.
Qed.

Lemma nloop_inv {St : Type} (P : St -> Prop) ls (body : env -> St -> St) :
  (forall e st, P st -> P (body e st)) -> forall e st, P st -> P (nloop ls body e st).
Proof.
  intros Hb. induction ls as [|[l d] r IH]; intros e st Hst; [apply Hb; exact Hst|]. cbn [nloop].
  generalize (seq 0 d). intros xs. revert st Hst. induction xs as [|x xs IHx]; intros st Hst; [exact Hst|].
  cbn [fold_left]. apply IHx. apply IH. exact Hst.
Qed.

Section EinsumRounding.
  Variable rnd : R -> R.
  Variable u : R.
  Hypothesis u_nonneg : 0 <= u.
  Hypothesis rnd_err : forall x, Rabs (rnd x - x) <= u * Rabs x.
  Hypothesis rnd_idem : forall x, rnd (rnd x) = rnd x.
  Variable fused : bool.
  Notation FSc := (FS rnd fused).
  Notation E := (E u).

  Variables I J dimsA dimsB : list nat.
  Variables A B : nat -> R.
  Let O := out_labels I J.
  Let od := out_dims I J dimsA dimsB.
  Let ls := loop_labels I J dimsA dimsB.
  Let idx (e : env) : nat := flat od (map e O).
  Let pr (e : env) : R := A (flat dimsA (map e I)) * B (flat dimsB (map e J)).

  (* number of terms accumulated into each position *)
  Definition einsum_count : nat -> nat :=
    nloop ls (fun e (c : nat -> nat) => fun q => if q =? idx e then S (c q) else c q) (fun _ => 0%nat) (fun _ => 0%nat).
  Definition einsum_abs : nat -> R :=
    einsum_general (S:=RS) I J dimsA dimsB (fun p => Rabs (A p)) (fun p => Rabs (B p)).

  Definition Inv (st : ((nat -> R) * (nat -> R)) * ((nat -> R) * (nat -> nat))) : Prop :=
    let '((of, os), (ot, oc)) := st in
    forall q, (oc q = 0%nat /\ of q = 0 /\ os q = 0 /\ ot q = 0) \/
              ((1 <= oc q)%nat /\ rnd (of q) = of q /\ Rabs (of q - os q) <= E (oc q) * ot q /\ Rabs (os q) <= ot q).

  Let bf (e : env) (out : nat -> R) : nat -> R := fun q => if q =? idx e then rnd (out q + rnd (pr e)) else out q.
  Let bs (e : env) (out : nat -> R) : nat -> R := fun q => if q =? idx e then out q + pr e else out q.
  Let bt (e : env) (out : nat -> R) : nat -> R := fun q => if q =? idx e then out q + Rabs (pr e) else out q.
  Let bc (e : env) (c : nat -> nat) : nat -> nat := fun q => if q =? idx e then S (c q) else c q.

  Lemma body_inv e st : Inv st ->
    Inv ((bf e (fst (fst st)), bs e (snd (fst st))), (bt e (fst (snd st)), bc e (snd (snd st)))).
  Proof.
    destruct st as [[of os] [ot oc]]. cbn [fst snd]. intros H q. specialize (H q). unfold bf, bs, bt, bc.
    destruct (q =? idx e); [|exact H]. right.
    destruct H as [(Hc & Hf & Hs & Ht) | (Hc & Hx & He & Hs)].
    - rewrite Hc, Hf, Hs, Ht, !Rplus_0_l, !rnd_idem. split; [lia|]. split; [first [reflexivity | apply rnd_idem]|]. split.
      + unfold Rounding.E. simpl. rewrite Rmult_1_r. replace (1 + u - 1) with u by ring. apply rnd_err.
      + lra.
    - split; [lia|]. split; [apply rnd_idem|]. split.
      + rewrite (Rplus_comm (of q)), (Rplus_comm (os q)) at 1.
        replace (pr e + os q) with (os q + pr e) by ring.
        apply (step_unfused rnd u u_nonneg rnd_err); assumption.
      + eapply Rle_trans; [apply Rabs_triang|]. lra.
  Qed.

  Theorem einsum_float_bound q :
    Rabs (einsum_general (S:=FSc) I J dimsA dimsB A B q - einsum_general (S:=RS) I J dimsA dimsB A B q)
    <= E (einsum_count q) * einsum_abs q.
  Proof.
    pose (body4 := fun e (st : ((nat -> R) * (nat -> R)) * ((nat -> R) * (nat -> nat))) =>
                     ((bf e (fst (fst st)), bs e (snd (fst st))), (bt e (fst (snd st)), bc e (snd (snd st))))).
    assert (H : Inv (nloop ls body4 (fun _ => 0%nat) ((fun _ => 0, fun _ => 0), (fun _ => 0, fun _ => 0%nat)))).
    { apply nloop_inv; [intros e st; apply body_inv|]. intros q'. left. repeat split; reflexivity. }
    unfold body4 in H.
    rewrite (nloop_pair ls (fun e (st : (nat -> R) * (nat -> R)) => (bf e (fst st), bs e (snd st)))
                           (fun e (st : (nat -> R) * (nat -> nat)) => (bt e (fst st), bc e (snd st)))) in H.
    rewrite (nloop_pair ls bf bs), (nloop_pair ls bt bc) in H. cbn [Inv] in H. specialize (H q).
    assert (Ef : einsum_general (S:=FSc) I J dimsA dimsB A B = nloop ls bf (fun _ => 0%nat) (fun _ => 0)).
    { unfold einsum_general. fold O od ls. f_equal. }
    assert (Es : einsum_general (S:=RS) I J dimsA dimsB A B = nloop ls bs (fun _ => 0%nat) (fun _ => 0)).
    { unfold einsum_general. fold O od ls. f_equal. }
    assert (Et : einsum_abs = nloop ls bt (fun _ => 0%nat) (fun _ => 0)).
    { unfold einsum_abs, einsum_general. fold O od ls. f_equal.
      unfold bt, term, pr. cbn [smul sadd RS]. 
      apply FunctionalExtensionality.functional_extensionality; intro e.
      apply FunctionalExtensionality.functional_extensionality; intro out.
      apply FunctionalExtensionality.functional_extensionality; intro q'.
      rewrite Rabs_mult. reflexivity. }
    rewrite Ef, Es, Et. unfold einsum_count. fold bc.
    destruct H as [(Hc & Hf & Hs & Ht) | (Hc & Hx & He & Hs)].
    - rewrite Hf, Hs, Ht, Hc. rewrite Rminus_0_r, Rabs_R0, E_0. lra.
    - exact He.
  Qed.
End EinsumRounding.
