From Coq Require Import Arith List Lia Bool Sorting.Sorted.
From FastorV Require Import Base.Scalar Base.BigSum Base.Field Model.Linalg Proofs.SingleAssign.
Import ListNotations.

(* ---------------------------------------------------------------- orders *)
Lemma seq_sorted lo n : StronglySorted lt (seq lo n).
Proof.
  revert lo; induction n as [|n IH]; intros lo; cbn [seq]; constructor; [apply IH|].
  apply Forall_forall. intros x Hx. apply in_seq in Hx. lia.
Qed.
Lemma sorted_map {A B} (f : A -> B) (RA : A -> A -> Prop) (RB : B -> B -> Prop) l :
  (forall a b, In a l -> In b l -> RA a b -> RB (f a) (f b)) -> StronglySorted RA l -> StronglySorted RB (map f l).
Proof.
  intros H Hs. induction Hs as [|a l Hs IH Hall]; cbn [map]; constructor.
  - apply IH. intros x y Hx Hy. apply H; right; assumption.
  - apply Forall_forall. intros y Hy. apply in_map_iff in Hy as [x [<- Hx]]. apply H; [left; reflexivity | right; exact Hx |].
    rewrite Forall_forall in Hall. apply Hall; exact Hx.
Qed.
Lemma sorted_filter {A} (f : A -> bool) (R : A -> A -> Prop) l : StronglySorted R l -> StronglySorted R (filter f l).
Proof.
  induction 1 as [|a l Hs IH Hall]; cbn [filter]; [constructor|].
  destruct (f a); [constructor; [exact IH|] | exact IH].
  apply Forall_forall. intros y Hy. apply filter_In in Hy as [Hy _]. rewrite Forall_forall in Hall. apply Hall; exact Hy.
Qed.
Lemma rev_seq_sorted n : StronglySorted (fun a b => n - a < n - b) (rev (seq 0 n)).
Proof.
  assert (G : forall m, m <= n -> StronglySorted (fun a b => n - a < n - b) (rev (seq 0 m))).
  { induction m as [|m IH]; intros Hm; [constructor|].
    rewrite seq_S, rev_app_distr. cbn [rev app Nat.add]. constructor; [apply IH; lia|].
    apply Forall_forall. intros x Hx. apply in_rev in Hx. apply in_seq in Hx. lia. }
  apply G; lia.
Qed.

Section Proofs.
  Variable S : Scalar.
  Hypothesis F : FieldLaws S.
  Let L := f_ring S F.
  Notation "a +s b" := (sadd S a b) (at level 50, left associativity).
  Notation "a -s b" := (ssub S a b) (at level 50, left associativity).
  Notation "a *s b" := (smul S a b) (at level 40, left associativity).

  (* sum over 0..n-1 split at i *)
  Lemma sum_split3 (f : nat -> S) n i : i < n ->
    sum_n f n = sum_n f i +s f i +s sum_n (fun k => f (i + 1 + k)) (n - 1 - i).
  Proof.
    intros Hi. replace n with (i + (1 + (n - 1 - i))) at 1 by lia.
    rewrite (sum_n_split S L). rewrite (sum_n_split S L (fun k => f (i + k)) 1).
    rewrite (add_assoc S L). f_equal; [f_equal|].
    - unfold sum_n, sum_from; cbn. rewrite (add_0_l S L). f_equal; lia.
    - apply (sum_n_ext S). intros k _. f_equal; lia.
  Qed.
  Lemma sum_zero (f : nat -> S) n : (forall k, k < n -> f k = s0 S) -> sum_n f n = s0 S.
  Proof. intros H. rewrite (sum_n_ext S f (fun _ => s0 S)) by exact H. apply (sum_n_zero S L). Qed.

  (* ---------------------------------------------------------------- forward substitution *)
  Lemma fsub_eq n Lm b i : i < n ->
    fsub n Lm b i = b i -s sum_n (fun k => Lm i k *s fsub n Lm b k) i.
  Proof.
    intros Hi. unfold fsub.
    apply (sa_fixpoint nat S Nat.eqb Nat.eqb_spec (fsub_g S Lm b) (fun i => i)).
    - intros j v v' Hv. unfold fsub_g. f_equal. apply (sum_n_ext S). intros k Hk. rewrite (Hv k Hk). reflexivity.
    - apply seq_sorted.
    - apply in_seq; lia.
  Qed.
  (** forward_subs solves L*y = b for a unit lower triangular L *)
  Theorem fsub_correct n Lm b :
    (forall i, i < n -> Lm i i = s1 S) -> (forall i k, i < k < n -> Lm i k = s0 S) ->
    forall i, i < n -> mvec n Lm (fsub n Lm b) i = b i.
  Proof.
    intros Hd Hu i Hi. unfold mvec. rewrite (sum_split3 _ n i Hi).
    rewrite (sum_zero (fun k => Lm i (i + 1 + k) *s fsub n Lm b (i + 1 + k))).
    2:{ intros k Hk. rewrite Hu by lia. apply (mul_0_l S L). }
    rewrite (add_0_r S L). rewrite Hd by exact Hi. rewrite (mul_1_l S L).
    rewrite (add_comm S L). apply (sub_eq_add S F). apply fsub_eq; exact Hi.
  Qed.

  (* ---------------------------------------------------------------- backward substitution *)
  Lemma bsub_eq n U y i : i < n ->
    bsub n U y i = sdiv S (y i -s sum_n (fun k => U i (i + 1 + k) *s bsub n U y (i + 1 + k)) (n - 1 - i)) (U i i).
  Proof.
    intros Hi. unfold bsub.
    apply (sa_fixpoint nat S Nat.eqb Nat.eqb_spec (bsub_g S n U y) (fun i => n - i)).
    - intros j v v' Hv. unfold bsub_g. f_equal. f_equal. apply (sum_n_ext S). intros k Hk.
      destruct (Nat.lt_ge_cases j n) as [Hj|Hj]; [rewrite (Hv (j + 1 + k)) by lia; reflexivity | lia].
    - apply rev_seq_sorted.
    - apply in_rev. rewrite rev_involutive. apply in_seq; lia.
  Qed.
  (** backward_subs solves U*x = y for an upper triangular U with non-zero diagonal *)
  Theorem bsub_correct n U y :
    (forall i, i < n -> U i i <> s0 S) -> (forall i k, k < i < n -> U i k = s0 S) ->
    forall i, i < n -> mvec n U (bsub n U y) i = y i.
  Proof.
    intros Hd Hl i Hi. unfold mvec. rewrite (sum_split3 _ n i Hi).
    rewrite (sum_zero (fun k => U i k *s bsub n U y k) i).
    2:{ intros k Hk. rewrite Hl by lia. apply (mul_0_l S L). }
    rewrite (add_0_l S L). rewrite (bsub_eq n U y i Hi) at 1.
    rewrite (mul_comm S L). rewrite (div_mul S F) by (apply Hd; exact Hi).
    apply (sub_add_cancel S F).
  Qed.

  (* ---------------------------------------------------------------- Doolittle LU, loops as written *)
  Lemma key_eqb_spec a b : reflect (a = b) (key_eqb a b).
  Proof.
    destruct a as [la [ia ja]], b as [lb [ib jb]]. unfold key_eqb; cbn [fst snd].
    destruct (Bool.eqb_spec la lb), (Nat.eqb_spec ia ib), (Nat.eqb_spec ja jb); cbn; constructor; congruence.
  Qed.
  Definition krank (n : nat) (q : key) : nat := let '(isL, (i, j)) := q in j * (2 * n) + (if isL then n + i else i).

  Lemma unrank_rank n p : 0 < n -> krank n (unrank n p) = p.
  Proof.
    intros Hn. unfold unrank, krank.
    pose proof (Nat.div_mod p (2 * n) ltac:(lia)) as Hdm. pose proof (Nat.mod_upper_bound p (2 * n) ltac:(lia)) as Hub.
    destruct (Nat.ltb_spec (p mod (2 * n)) n); cbn [Uk Lk]; lia.
  Qed.
  Lemma lu_order_sorted n : StronglySorted (fun a b => krank n a < krank n b) (lu_order n).
  Proof.
    unfold lu_order. apply sorted_filter.
    destruct n as [|n]; [cbn; constructor|].
    apply (sorted_map (unrank (Datatypes.S n)) lt); [|apply seq_sorted].
    intros a b _ _ Hab. rewrite !unrank_rank by lia. exact Hab.
  Qed.
  Lemma lu_order_in n q : In q (lu_order n) <-> valid q = true /\ fst (snd q) < n /\ snd (snd q) < n.
  Proof.
    unfold lu_order. rewrite filter_In, in_map_iff. split.
    - intros [[p [<- Hp]] Hv]. split; [exact Hv|]. apply in_seq in Hp.
      assert (Hn : 0 < n) by (destruct n; [cbn in Hp; lia | lia]).
      unfold unrank in *. pose proof (Nat.mod_upper_bound p (2 * n) ltac:(lia)) as Hub.
      assert (Hd : p / (2 * n) < n) by (apply Nat.div_lt_upper_bound; lia).
      destruct (Nat.ltb_spec (p mod (2 * n)) n); cbn [Uk Lk fst snd]; lia.
    - intros [Hv [Hi Hj]]. split; [|exact Hv]. destruct q as [isL [i j]]. cbn [fst snd] in *.
      exists (j * (2 * n) + (if isL then n + i else i)). split.
      + unfold unrank. assert (Hr : (if isL then n + i else i) < 2 * n) by (destruct isL; lia).
        rewrite Nat.div_add_l, (Nat.div_small _ _ Hr), Nat.add_0_r by lia.
        rewrite Nat.add_comm, Nat.mod_add, (Nat.mod_small _ _ Hr) by lia.
        destruct isL; [destruct (Nat.ltb_spec (n + i) n); [lia|]; unfold Lk; do 2 f_equal; lia | destruct (Nat.ltb_spec i n); [reflexivity | lia]].
      + apply in_seq. assert ((if isL then n + i else i) < 2 * n) by (destruct isL; lia). nia.
  Qed.

  Lemma lu_dep n A q v v' : (forall k, krank n k < krank n q -> v k = v' k) -> fst (snd q) < n -> snd (snd q) < n -> valid q = true ->
    lu_g S A q v = lu_g S A q v'.
  Proof.
    destruct q as [isL [i j]]; cbn [fst snd valid]; intros Hv Hi Hj Hval. unfold lu_g.
    destruct isL.
    - apply Nat.leb_le in Hval. f_equal; [f_equal; apply (sum_n_ext S); intros k Hk; rewrite (Hv (Lk i k)), (Hv (Uk k j)) by (unfold krank, Lk, Uk; nia); reflexivity |].
      apply Hv. unfold krank, Uk. lia.
    - apply Nat.leb_le in Hval. f_equal. apply (sum_n_ext S); intros k Hk. rewrite (Hv (Lk i k)), (Hv (Uk k j)) by (unfold krank, Lk, Uk; nia). reflexivity.
  Qed.

  (* the generic fixpoint lemma needs the dependency property for every key: totalise g outside the valid keys *)
  Definition lu_g' (n : nat) (A : nat -> nat -> S) (q : key) (v : key -> S) : S :=
    if valid q && (fst (snd q) <? n) && (snd (snd q) <? n) then lu_g S A q v else s0 S.
  Lemma doolittle_eq n A q : In q (lu_order n) -> doolittle n A q = lu_g S A q (doolittle n A).
  Proof.
    intros Hq. unfold doolittle.
    pose proof (sa_fixpoint key S key_eqb key_eqb_spec (lu_g' n A) (krank n)) as FP.
    (* run with lu_g and with lu_g' coincide on lu_order, step by step *)
    assert (R : forall order, (forall x, In x order -> In x (lu_order n)) -> forall v0, sa_run key_eqb (lu_g S A) order v0 = sa_run key_eqb (lu_g' n A) order v0).
    { induction order as [|a rest IH]; intros Hsub v0; cbn [sa_run fold_left]; [reflexivity|].
      fold (sa_run key_eqb (lu_g S A) rest (sa_step key_eqb (lu_g S A) v0 a)). fold (sa_run key_eqb (lu_g' n A) rest (sa_step key_eqb (lu_g' n A) v0 a)).
      assert (Es : sa_step key_eqb (lu_g S A) v0 a = sa_step key_eqb (lu_g' n A) v0 a).
      { unfold sa_step, lu_g'. pose proof (Hsub a (or_introl eq_refl)) as Ha. apply lu_order_in in Ha as [Hv [Hi Hj]].
        rewrite Hv. apply Nat.ltb_lt in Hi, Hj. rewrite Hi, Hj. reflexivity. }
      rewrite Es. apply IH. intros x Hx. apply Hsub; right; exact Hx. }
    rewrite (R (lu_order n) (fun x H => H)).
    rewrite FP.
    - unfold lu_g'. apply lu_order_in in Hq as [Hv [Hi Hj]]. rewrite Hv. apply Nat.ltb_lt in Hi, Hj. rewrite Hi, Hj. reflexivity.
    - intros i v v' Hvv. unfold lu_g'.
      destruct (valid i) eqn:Hv; cbn [andb]; [|reflexivity].
      destruct (Nat.ltb_spec (fst (snd i)) n); cbn [andb]; [|reflexivity].
      destruct (Nat.ltb_spec (snd (snd i)) n); [|reflexivity].
      apply (lu_dep n); assumption.
    - apply lu_order_sorted.
    - exact Hq.
  Qed.

  (** structure: exact zeros outside the triangles (entries the loops never write keep the fill value 0) *)
  Theorem lu_structure n A :
    (forall i j, i < j -> lu_L n A i j = s0 S) /\ (forall i j, j < i -> lu_U n A i j = s0 S).
  Proof.
    split; intros i j Hij; unfold lu_L, lu_U, doolittle.
    - apply (sa_frame key S key_eqb key_eqb_spec). intros Hin. apply lu_order_in in Hin as [Hv _]. cbn in Hv. apply Nat.leb_le in Hv. lia.
    - apply (sa_frame key S key_eqb key_eqb_spec). intros Hin. apply lu_order_in in Hin as [Hv _]. cbn in Hv. apply Nat.leb_le in Hv. lia.
  Qed.
  Lemma U_eq n A i j : i <= j -> j < n -> lu_U n A i j = A i j -s sum_n (fun k => lu_L n A i k *s lu_U n A k j) i.
  Proof. intros Hij Hj. unfold lu_U at 1. rewrite doolittle_eq by (apply lu_order_in; cbn; split; [apply Nat.leb_le; lia | lia]). reflexivity. Qed.
  Lemma L_eq n A i j : j <= i -> i < n -> lu_L n A i j = sdiv S (A i j -s sum_n (fun k => lu_L n A i k *s lu_U n A k j) j) (lu_U n A j j).
  Proof. intros Hij Hi. unfold lu_L at 1. rewrite doolittle_eq by (apply lu_order_in; cbn; split; [apply Nat.leb_le; lia | lia]). reflexivity. Qed.

  (** the diagonal of L is 1 (computed as U(j,j)/U(j,j)) when the pivot is non-zero *)
  Theorem lu_unit_diagonal n A j : j < n -> lu_U n A j j <> s0 S -> lu_L n A j j = s1 S.
  Proof.
    intros Hj Hp. rewrite L_eq by lia. rewrite <- (U_eq n A j j) by lia.
    rewrite <- (mul_1_l S L (lu_U n A j j)) at 1. apply (mul_div S F). exact Hp.
  Qed.

  (** L*U = A when every pivot is non-zero *)
  Theorem lu_product n A : (forall j, j < n -> lu_U n A j j <> s0 S) ->
    forall i j, i < n -> j < n -> mmul n (lu_L n A) (lu_U n A) i j = A i j.
  Proof.
    intros Hp i j Hi Hj. unfold mmul. destruct (lu_structure n A) as [HL HU].
    destruct (Nat.le_gt_cases i j) as [Hij|Hij].
    - rewrite (sum_split3 _ n i Hi).
      rewrite (sum_zero (fun k => lu_L n A i (i + 1 + k) *s lu_U n A (i + 1 + k) j)).
      2:{ intros k Hk. rewrite HL by lia. apply (mul_0_l S L). }
      rewrite (add_0_r S L). rewrite lu_unit_diagonal by (try apply Hp; lia). rewrite (mul_1_l S L).
      rewrite (add_comm S L). apply (sub_eq_add S F). apply U_eq; lia.
    - rewrite (sum_split3 _ n j Hj).
      rewrite (sum_zero (fun k => lu_L n A i (j + 1 + k) *s lu_U n A (j + 1 + k) j)).
      2:{ intros k Hk. rewrite HU by lia. apply (mul_0_r S L). }
      rewrite (add_0_r S L). rewrite (L_eq n A i j) by lia.
      rewrite (div_mul S F) by (apply Hp; lia). rewrite (add_comm S L). apply (sub_add_cancel S F).
  Qed.

  (* ---------------------------------------------------------------- solve / inverse through LU *)
  Lemma mvec_mmul n (A B : mat S) (x : vec S) i : mvec n (mmul n A B) x i = mvec n A (mvec n B x) i.
  Proof.
    unfold mvec, mmul.
    transitivity (sum_n (fun k => sum_n (fun m => A i m *s B m k *s x k) n) n).
    { apply (sum_n_ext S). intros k _. symmetry. apply (sum_n_mul_r S L). }
    rewrite (sum_n_swap S L). apply (sum_n_ext S). intros m _.
    rewrite <- (sum_n_mul_l S L). apply (sum_n_ext S). intros k _. symmetry. apply (mul_assoc S L).
  Qed.
  Lemma mvec_ext n (A A' : mat S) (x : vec S) i : (forall k, k < n -> A i k = A' i k) -> mvec n A x i = mvec n A' x i.
  Proof. intros H. unfold mvec. apply (sum_n_ext S). intros k Hk. rewrite H by exact Hk. reflexivity. Qed.

  (** get_lu_solve: forward then backward substitution on the Doolittle factors solves A*x = b *)
  Theorem lu_solve_correct n A b : (forall j, j < n -> lu_U n A j j <> s0 S) ->
    forall i, i < n -> mvec n A (lu_solve n A b) i = b i.
  Proof.
    intros Hp i Hi. destruct (lu_structure n A) as [HL HU].
    rewrite (mvec_ext n A (mmul n (lu_L n A) (lu_U n A))) by (intros k Hk; symmetry; apply lu_product; assumption).
    rewrite mvec_mmul. unfold lu_solve.
    assert (E : forall m, m < n -> mvec n (lu_U n A) (bsub n (lu_U n A) (fsub n (lu_L n A) b)) m = fsub n (lu_L n A) b m).
    { intros m Hm. apply bsub_correct; [exact Hp | intros; apply HU; lia | exact Hm]. }
    unfold mvec at 1. rewrite (sum_n_ext S _ (fun k => lu_L n A i k *s fsub n (lu_L n A) b k)) by (intros k Hk; rewrite E by exact Hk; reflexivity).
    apply (fsub_correct n (lu_L n A) b); [intros; apply lu_unit_diagonal; [assumption | apply Hp; assumption] | intros; apply HL; lia | exact Hi].
  Qed.
  (** get_lu_inverse: A * X = I *)
  Theorem lu_inverse_correct n A : (forall j, j < n -> lu_U n A j j <> s0 S) ->
    forall i j, i < n -> j < n -> mmul n A (lu_inverse n A) i j = if i =? j then s1 S else s0 S.
  Proof.
    intros Hp i j Hi Hj. unfold mmul, lu_inverse.
    change (sum_n (fun k => A i k *s lu_solve n A (fun r => if r =? j then s1 S else s0 S) k) n) with (mvec n A (lu_solve n A (fun r => if r =? j then s1 S else s0 S)) i).
    rewrite lu_solve_correct by assumption. reflexivity.
  Qed.
End Proofs.
