From Coq Require Import Arith ZArith List Lia Bool.
From FastorV Require Import Base.Shape Model.Views.
Import ListNotations.
Ltac Zify.zify_post_hook ::= Z.div_mod_to_equations.

(** C04: an admissible normalised range selects size = ceil((last-first)/step) elements,
    all inside [first,last) and hence inside the extent *)
Local Open Scope Z_scope.
Lemma rsize_ceil N r : admissible N r ->
  0 <= rsize r /\ (rsize r - 1) * us r < ul r - uf r <= rsize r * us r \/ (rsize r = 0 /\ ul r = uf r).
Proof.
  intros (H0 & H1 & H2 & H3). unfold rsize.
  set (range := ul r - uf r). assert (Hr : 0 <= range) by (unfold range; lia).
  rewrite Z.rem_mod_nonneg, Z.quot_div_nonneg by lia.
  destruct (Z.eqb_spec (range mod us r) 0) as [E|E].
  - destruct (Z.eq_dec range 0) as [E0|E0].
    + right. rewrite E0. rewrite Z.div_0_l by lia. unfold range in E0. lia.
    + left. pose proof (Z.div_mod range (us r) ltac:(lia)). rewrite E in H.
      assert (0 < range / us r) by nia. split; nia.
  - left. pose proof (Z.div_mod range (us r) ltac:(lia)). pose proof (Z.mod_pos_bound range (us r) ltac:(lia)).
    assert (0 <= range / us r) by (apply Z.div_pos; lia). split; nia.
Qed.

Theorem range_denotes N r : admissible N r ->
  forall j, 0 <= j < rsize r -> uf r <= uf r + j * us r < ul r /\ uf r + j * us r < N.
Proof.
  intros Ha j Hj. destruct (rsize_ceil N r Ha) as [[Hs Hc]|[Hs _]]; [|lia].
  destruct Ha as (H0 & H1 & H2 & H3).
  assert (j * us r <= (rsize r - 1) * us r) by nia. nia.
Qed.
Local Close Scope Z_scope.

(** the negative / last-relative encodings normalise to what they denote *)
Lemma norm1d_spec N f l s : (0 <= N)%Z ->
  norm1d N (mkU f l s) = mkU (if (f <? 0)%Z then (N + 1 + f)%Z else f) (if (l <? 0)%Z then (N + 1 + l)%Z else l) s.
Proof. intros. unfold norm1d; simpl. destruct (f <? 0)%Z, (l <? 0)%Z; f_equal; lia. Qed.

Lemma normnd_last N f s : (0 <= f)%Z -> normnd N (mkU f (-1) s) = mkU f N s.
Proof. intros. unfold normnd; cbn [uf ul us]. change (-1 <? 0)%Z with true. destruct (Z.leb_spec 0 f); [|lia]. cbn [andb]. f_equal. lia. Qed.
Lemma normnd_flast N s : normnd N (mkU (-1) (-1) s) = mkU N N s.   (* fseq<-1,-1> : empty tail *)
Proof. unfold normnd; cbn [uf ul us]. change (-1 <? 0)%Z with true. change (0 <=? -1)%Z with false. change (-1 =? 0)%Z with false. cbn [andb]. f_equal; lia. Qed.
Lemma normnd_lastelem N s : normnd N (mkU (-1) 0 s) = mkU (N - 1) N s.   (* (last, 0): the last element *)
Proof. reflexivity. Qed.

Section Proofs.
  Variable T : Type.

  Lemma voffset_flat pdims v j : voffset pdims v j = flat pdims (vmap v j) \/ length pdims <> length v \/ length v <> length j.
  Proof.
    revert v j. induction pdims as [|d ds IH]; intros [|r rs] [|i is]; simpl; try (left; reflexivity); try (right; simpl; lia).
    destruct (IH rs is) as [E|[E|E]]; [left; rewrite E; reflexivity | right; left; lia | right; right; lia].
  Qed.

  Lemma vmap_in_range pdims v j : view_ok pdims v -> in_range (vdims v) j -> in_range pdims (vmap v j).
  Proof.
    revert v j. induction pdims as [|d ds IH]; intros [|r rs] [|i is] Hv Hj; simpl in *; try contradiction; try exact I.
    destruct Hv as [(Hs & Hst & Hb) Hv]. destruct Hj as [Hi Hj]. split; [|apply IH; assumption].
    assert (i * nstep r <= (nsize r - 1) * nstep r) by (apply Nat.mul_le_mono_r; lia). lia.
  Qed.

  Lemma voffset_eq pdims v j : view_ok pdims v -> in_range (vdims v) j -> voffset pdims v j = flat pdims (vmap v j).
  Proof.
    revert v j. induction pdims as [|d ds IH]; intros [|r rs] [|i is] Hv Hj; simpl in *; try contradiction; try reflexivity.
    destruct Hv as [_ Hv]. destruct Hj as [_ Hj]. rewrite (IH rs is Hv Hj). reflexivity.
  Qed.

  Lemma vmap_inj v j1 j2 : (forall r, In r v -> 1 <= nstep r) -> length j1 = length v -> length j2 = length v ->
    vmap v j1 = vmap v j2 -> j1 = j2.
  Proof.
    revert j1 j2. induction v as [|r rs IH]; intros [|a j1] [|b j2] Hs L1 L2 E; simpl in *; try discriminate; try reflexivity.
    inversion E as [[E1 E2]]. assert (1 <= nstep r) by (apply Hs; left; reflexivity).
    f_equal; [nia|]. apply IH; try lia; try assumption. intros; apply Hs; right; assumption.
  Qed.

  Lemma view_ok_steps pdims v : view_ok pdims v -> forall r, In r v -> 1 <= nstep r.
  Proof.
    revert v. induction pdims as [|d ds IH]; intros [|r rs] Hv r0 Hin; simpl in *; try contradiction.
    destruct Hv as [(_ & Hst & _) Hv]. destruct Hin as [<-|Hin]; [exact Hst|]. apply (IH rs Hv r0 Hin).
  Qed.
  Lemma view_ok_dims_pos pdims v : view_ok pdims v -> forall d, In d (vdims v) -> 0 < d.
  Proof.
    revert v. induction pdims as [|d ds IH]; intros [|r rs] Hv d0 Hin; simpl in *; try contradiction.
    destruct Hv as [(Hs & _ & _) Hv]. destruct Hin as [<-|Hin]; [exact Hs|]. apply (IH rs Hv d0 Hin).
  Qed.

  (** C04: reading a view element by its multi-index gives the parent element at
      (first_d + j_d*step_d), in row-major order of the view's own extents, for every rank *)
  Theorem view_read_exact (A : nat -> T) pdims v j :
    view_ok pdims v -> in_range (vdims v) j ->
    view_read A pdims v (flat (vdims v) j) = A (flat pdims (vmap v j))
    /\ in_range pdims (vmap v j).
  Proof.
    intros Hv Hj. unfold view_read, view_off. rewrite (unflat_flat _ _ Hj), (voffset_eq _ _ _ Hv Hj).
    split; [reflexivity | apply vmap_in_range; assumption].
  Qed.

  (** the flat positions of a view are pairwise distinct parent offsets inside the parent *)
  Lemma view_off_inj pdims v i1 i2 : view_ok pdims v ->
    i1 < prod (vdims v) -> i2 < prod (vdims v) -> view_off pdims v i1 = view_off pdims v i2 -> i1 = i2.
  Proof.
    intros Hv H1 H2 E. unfold view_off in E.
    pose proof (view_ok_dims_pos _ _ Hv) as Hpos.
    pose proof (unflat_in_range (vdims v) i1 Hpos) as R1. pose proof (unflat_in_range (vdims v) i2 Hpos) as R2.
    rewrite !(voffset_eq _ _ _ Hv) in E by assumption.
    apply flat_inj in E; try (apply vmap_in_range; assumption).
    apply vmap_inj in E; [| apply (view_ok_steps _ _ Hv) | rewrite (in_range_length _ _ R1); unfold vdims; apply map_length
                           | rewrite (in_range_length _ _ R2); unfold vdims; apply map_length].
    rewrite <- (flat_unflat (vdims v) i1 Hpos H1), <- (flat_unflat (vdims v) i2 Hpos H2), E. reflexivity.
  Qed.
  Lemma view_off_bound pdims v i : view_ok pdims v -> view_off pdims v i < prod pdims.
  Proof.
    intros Hv. unfold view_off. pose proof (unflat_in_range (vdims v) i (view_ok_dims_pos _ _ Hv)) as R.
    rewrite (voffset_eq _ _ _ Hv R). apply flat_lt. apply vmap_in_range; assumption.
  Qed.

  (** generic scatter lemma (C05, C18, C19): if the offsets are pairwise distinct and the
      value written at step i does not depend on the positions written before it, then
      every selected position gets its value computed from the ORIGINAL memory and every
      other position is unchanged *)
  Lemma scatter_spec (off : nat -> nat) (F : nat -> (nat -> T) -> T) n (A0 : nat -> T) :
    (forall i j, i < n -> j < n -> off i = off j -> i = j) ->
    (forall i A A', i < n -> (forall p, (forall i', i' < i -> off i' <> p) -> A p = A' p) -> F i A = F i A') ->
    (forall i, i < n -> scatter off F n A0 (off i) = F i A0) /\
    (forall p, (forall i, i < n -> off i <> p) -> scatter off F n A0 p = A0 p).
  Proof.
    unfold scatter. induction n as [|n IH]; intros Hinj Hins.
    - split; [intros i Hi; lia | intros p _; reflexivity].
    - rewrite seq_S, fold_left_app. cbn [fold_left Nat.add].
      destruct IH as [IHa IHb].
      { intros i j Hi Hj; apply Hinj; lia. }
      { intros i A A' Hi; apply Hins; lia. }
      set (An := fold_left (fun A i => upd1 A (off i) (F i A)) (seq 0 n) A0) in *.
      split.
      + intros i Hi. unfold upd1. destruct (Nat.eqb_spec (off i) (off n)) as [E|E].
        * assert (i = n) by (apply Hinj; lia). subst i.
          apply Hins; [lia|]. intros p Hp. apply IHb. exact Hp.
        * apply IHa. assert (i <> n) by (intros ->; apply E; reflexivity). lia.
      + intros p Hp. unfold upd1. destruct (Nat.eqb_spec p (off n)) as [E|E].
        * exfalso. apply (Hp n); [lia | symmetry; exact E].
        * apply IHb. intros i Hi. apply Hp. lia.
  Qed.

  (** C05: A(view) op= rhs with a right-hand side that does not read A: exactly the
      selected positions are updated with op (old value) (rhs element), everything else
      - inside and outside the parent - is unchanged *)
  Theorem view_write_exact op pdims v (rhs : nat -> T) (A : nat -> T) :
    view_ok pdims v ->
    let A' := view_write op pdims v (fun i _ => rhs i) A in
    (forall i, i < prod (vdims v) -> A' (view_off pdims v i) = op (A (view_off pdims v i)) (rhs i)) /\
    (forall p, (forall i, i < prod (vdims v) -> view_off pdims v i <> p) -> A' p = A p) /\
    (forall p, prod pdims <= p -> A' p = A p).
  Proof.
    intros Hv A'. unfold A', view_write.
    destruct (scatter_spec (view_off pdims v) (fun i A => op (A (view_off pdims v i)) (rhs i)) (prod (vdims v)) A) as [Ha Hb].
    - intros i j Hi Hj. apply view_off_inj; assumption.
    - intros i B B' Hi Hsame. f_equal. apply Hsame. intros i' Hi' E.
      assert (i' = i) by (apply (view_off_inj pdims v); try assumption; lia). lia.
    - split; [exact Ha|]. split; [exact Hb|].
      intros p Hp. apply Hb. intros i Hi E. pose proof (view_off_bound pdims v i Hv). lia.
  Qed.

  (** C18 (a): with noalias() every operator acts on a snapshot: the right-hand side -
      which may read the very tensor being written, through any view - is evaluated
      entirely on the original contents *)
  Theorem noalias_snapshot op pdims v (rhs : nat -> (nat -> T) -> T) (A : nat -> T) :
    view_ok pdims v ->
    let A' := view_write_noalias op pdims v rhs A in
    (forall i, i < prod (vdims v) -> A' (view_off pdims v i) = op (A (view_off pdims v i)) (rhs i A)) /\
    (forall p, (forall i, i < prod (vdims v) -> view_off pdims v i <> p) -> A' p = A p).
  Proof.
    intros Hv A'. unfold A', view_write_noalias.
    set (tmp := scatter (view_off pdims v) (fun i _ => rhs i A) (prod (vdims v)) A).
    assert (Htmp : forall i, i < prod (vdims v) -> view_read tmp pdims v i = rhs i A).
    { intros i Hi. unfold view_read, tmp.
      destruct (scatter_spec (view_off pdims v) (fun i _ => rhs i A) (prod (vdims v)) A) as [Ha _].
      - intros a b Ha Hb. apply view_off_inj; assumption.
      - intros; reflexivity.
      - apply Ha. exact Hi. }
    destruct (view_write_exact op pdims v (fun i => view_read tmp pdims v i) A Hv) as [Ha [Hb _]].
    split; [|exact Hb].
    intros i Hi. rewrite (Ha i Hi). rewrite (Htmp i Hi). reflexivity.
  Qed.

  (** C18 (b): without noalias(), when the right-hand side reads the destination tensor
      only at the position it is about to write (source and destination views coincide),
      the in-place traversal gives the snapshot result *)
  Theorem perfect_overlap_inplace op pdims v (g : nat -> T -> T) (A : nat -> T) :
    view_ok pdims v ->
    let rhs := fun i (B : nat -> T) => g i (B (view_off pdims v i)) in
    let A' := view_write op pdims v rhs A in
    (forall i, i < prod (vdims v) -> A' (view_off pdims v i) = op (A (view_off pdims v i)) (rhs i A)) /\
    (forall p, (forall i, i < prod (vdims v) -> view_off pdims v i <> p) -> A' p = A p).
  Proof.
    intros Hv rhs A'. unfold A', view_write.
    apply (scatter_spec (view_off pdims v) (fun i B => op (B (view_off pdims v i)) (rhs i B)) (prod (vdims v)) A).
    - intros i j Hi Hj. apply view_off_inj; assumption.
    - intros i B B' Hi Hsame. unfold rhs.
      assert (E : B (view_off pdims v i) = B' (view_off pdims v i)).
      { apply Hsame. intros i' Hi' E. assert (i' = i) by (apply (view_off_inj pdims v); try assumption; lia). lia. }
      rewrite E. reflexivity.
  Qed.
End Proofs.
