(** meta/einsum_meta.h [is_vectorisable] / [is_reducibly_vectorisable] as translated on every run
    (Gen/Generated.v): which vector type and which stride the contraction loop nest of contraction.h uses on its
    fastest-changing index.  Whatever the extents and index lists: the stride is the lane count of the chosen
    vector type, it is 1, the sse width or the avx width, it divides the last extent F (so the strided loop never
    leaves the last axis), and it is 1 when the last index of the second tensor is contracted.  The float and
    double specialisations (literal widths) are the generic definition at the lane counts (4, 8) and (2, 4) of the
    128- and 256-bit vectors of those types. *)
From Coq Require Import ZArith Bool Lia.
From FastorV Require Import Gen.Generated.
Local Open Scope Z_scope.

Lemma gen_is_vectorisable_float_eq F nu n0 n1 lc :
  gen_is_vectorisable_float F nu n0 n1 lc 4 8 = gen_is_vectorisable F nu n0 n1 lc 4 8.
Proof. reflexivity. Qed.
Lemma gen_is_vectorisable_double_eq F nu n0 n1 lc :
  gen_is_vectorisable_double F nu n0 n1 lc 2 4 = gen_is_vectorisable F nu n0 n1 lc 2 4.
Proof. reflexivity. Qed.

Definition stride_ok (F : Z) (ws wa : Z) (r : bool * Z * Z) : Prop :=
  let '(v, st, lanes) := r in
  lanes = st /\ (st = 1 \/ st = ws \/ st = wa) /\ Z.rem F st = 0 /\ (v = true -> Z.rem F ws = 0).

Lemma gen_is_vectorisable_ok F nu n0 n1 lc ws wa :
  stride_ok F ws wa (gen_is_vectorisable F nu n0 n1 lc ws wa) /\
  (lc = true -> gen_is_vectorisable F nu n0 n1 lc ws wa = (false, 1, 1)).
Proof.
  unfold gen_is_vectorisable, stride_ok.
  destruct lc; cbn [negb andb].
  - split; [repeat split; auto using Z.rem_1_r; discriminate | reflexivity].
  - split; [| discriminate].
    destruct (Z.eqb_spec (Z.rem F ws) 0) as [Hs|Hs]; destruct (Z.eqb_spec (Z.rem F wa) 0) as [Ha|Ha]; cbn [negb andb];
      repeat split; auto using Z.rem_1_r; discriminate.
Qed.

Lemma gen_is_reducibly_vectorisable_ok F nu n0 n1 lc ws wa :
  stride_ok F ws wa (gen_is_reducibly_vectorisable F nu n0 n1 lc ws wa).
Proof.
  unfold gen_is_reducibly_vectorisable, stride_ok.
  destruct (Z.eqb_spec (Z.rem F ws) 0) as [Hs|Hs]; destruct (Z.eqb_spec (Z.rem F wa) 0) as [Ha|Ha]; cbn [negb andb];
    repeat split; auto using Z.rem_1_r; discriminate.
Qed.

(** * config/config.h, config/macros.h, simd_vector_abi.h evaluated from the compiler's predefined macros for each
    configuration of the harness grid [scalar; sse2; sse42; avx; avx2; avx512] (translator: own preprocessor with
    #define tracking).  The native ABI, the availability of masked kernels and of FMA are what the model
    configurations [mkCfg abi masks ..] of the correspondence harness assume for these flags, and the storage
    alignment is exactly the byte size of the native vector (at least 16 in the scalar configuration), so that an
    aligned vector access at an aligned tensor's first element is aligned. *)
Local Close Scope Z_scope.
From Coq Require Import Arith List.
Import ListNotations.
Lemma gen_isa_table_ok :
  map (fun r : nat * bool * bool * nat => let '(a, m, f, _) := r in (a, m, f)) gen_isa_table
  = [(0, false, false); (1, false, false); (1, false, false); (2, false, false); (2, true, true); (3, true, true)] /\
  forallb (fun r : nat * bool * bool * nat => let '(a, _, _, al) := r in if a =? 0 then 16 <=? al else gen_simd_vector_size a 1 =? al) gen_isa_table = true.
Proof. split; reflexivity. Qed.
