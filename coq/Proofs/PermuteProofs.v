From Coq Require Import Arith List Lia Bool Permutation.
From FastorV Require Import Base.Scalar Base.Mem Base.Shape Base.Tiling Model.Views Model.Permute Proofs.ViewsProofs.
Import ListNotations.

Lemma in_range_nth dims idx :
  in_range dims idx <-> length idx = length dims /\ forall m, m < length dims -> nth m idx 0 < nth m dims 0.
Proof.
  revert idx. induction dims as [|d ds IH]; intros [|i is]; simpl; split; try tauto; try (intros [H _]; discriminate).
  - intros _. split; [reflexivity|]. intros m Hm. lia.
  - intros [Hi H]. apply IH in H. destruct H as [L H]. split; [lia|]. intros [|m] Hm; [exact Hi | apply H; lia].
  - intros [L H]. split; [apply (H 0); lia|]. apply IH. split; [lia|]. intros m Hm. apply (H (S m)). lia.
Qed.

Lemma nth_gatherp p l j : j < length p -> nth j (gatherp p l) 0 = nth (nth j p 0) l 0.
Proof.
  intros Hj. unfold gatherp. rewrite (nth_indep _ 0 ((fun m => nth m l 0) 0)) by (rewrite map_length; exact Hj).
  apply (map_nth (fun m => nth m l 0)).
Qed.
Lemma gatherp_length p l : length (gatherp p l) = length p.
Proof. apply map_length. Qed.

Lemma gatherp_in_range p dims idx : in_range dims idx -> (forall m, In m p -> m < length dims) ->
  in_range (gatherp p dims) (gatherp p idx).
Proof.
  intros R Hp. apply in_range_nth in R. destruct R as [L R]. apply in_range_nth. rewrite !gatherp_length.
  split; [reflexivity|]. intros m Hm. rewrite !nth_gatherp by exact Hm. apply R. apply Hp. apply nth_In. exact Hm.
Qed.

Lemma is_perm_pos p j : is_perm p -> j < length p -> exists k, k < length p /\ nth k p 0 = j.
Proof. intros [_ Hin] Hj. apply Hin in Hj. apply (In_nth p j 0) in Hj. destruct Hj as [k [Hk E]]. exists k. split; assumption. Qed.

Lemma gatherp_inj p l1 l2 : is_perm p -> length l1 = length p -> length l2 = length p ->
  gatherp p l1 = gatherp p l2 -> l1 = l2.
Proof.
  intros Hp L1 L2 E. apply (nth_ext l1 l2 0 0); [lia|]. intros i Hi.
  destruct (is_perm_pos p i Hp ltac:(lia)) as [k [Hk Ek]].
  rewrite <- Ek, <- !nth_gatherp by exact Hk. rewrite E. reflexivity.
Qed.

Lemma index_of_lt x p : In x p -> index_of x p < length p /\ nth (index_of x p) p 0 = x.
Proof.
  induction p as [|y ys IH]; intros H; simpl in *; [contradiction|].
  destruct (Nat.eqb_spec x y) as [->|Hne]; [split; [lia|reflexivity]|].
  destruct H as [E|H]; [congruence|]. destruct (IH H). split; [lia|assumption].
Qed.
Lemma index_of_nth p j : NoDup p -> j < length p -> index_of (nth j p 0) p = j.
Proof.
  intros Hnd Hj. destruct (index_of_lt (nth j p 0) p (nth_In p 0 Hj)) as [Hlt E].
  apply (proj1 (NoDup_nth p 0) Hnd _ _ Hlt Hj E).
Qed.
Lemma nth_invp p i : i < length p -> nth i (invp p) 0 = index_of i p.
Proof.
  intros Hi. unfold invp. rewrite (nth_indep _ 0 ((fun i => index_of i p) 0)) by (rewrite map_length, seq_length; exact Hi).
  rewrite (map_nth (fun i => index_of i p)), seq_nth by exact Hi. reflexivity.
Qed.
Lemma invp_length p : length (invp p) = length p.
Proof. unfold invp. rewrite map_length, seq_length. reflexivity. Qed.

Lemma gatherp_invp_l p l : is_perm p -> length l = length p -> gatherp (invp p) (gatherp p l) = l.
Proof.
  intros Hp L. apply (nth_ext _ _ 0 0); [rewrite gatherp_length, invp_length; lia|].
  intros i Hi. rewrite gatherp_length, invp_length in Hi.
  rewrite nth_gatherp by (rewrite invp_length; exact Hi). rewrite nth_invp by exact Hi.
  destruct (index_of_lt i p (proj2 (proj2 Hp i) Hi)) as [Hlt E].
  rewrite nth_gatherp by exact Hlt. rewrite E. reflexivity.
Qed.
Lemma gatherp_invp_r p l : is_perm p -> length l = length p -> gatherp p (gatherp (invp p) l) = l.
Proof.
  intros Hp L. apply (nth_ext _ _ 0 0); [rewrite gatherp_length; lia|].
  intros j Hj. rewrite gatherp_length in Hj.
  rewrite nth_gatherp by exact Hj.
  assert (Hn : nth j p 0 < length p) by (apply (proj2 Hp); apply nth_In; exact Hj).
  rewrite nth_gatherp by (rewrite invp_length; exact Hn). rewrite nth_invp by exact Hn.
  rewrite index_of_nth; [reflexivity | apply Hp | exact Hj].
Qed.

Lemma prod_perm l1 l2 : Permutation l1 l2 -> prod l1 = prod l2.
Proof. intros P. induction P; simpl; try lia. Qed.
Lemma gatherp_seq l : gatherp (seq 0 (length l)) l = l.
Proof.
  apply (nth_ext _ _ 0 0); [rewrite gatherp_length, seq_length; reflexivity|].
  intros i Hi. rewrite gatherp_length, seq_length in Hi. rewrite nth_gatherp by (rewrite seq_length; exact Hi).
  rewrite seq_nth by exact Hi. reflexivity.
Qed.
Lemma prod_gatherp p dims : is_perm p -> length dims = length p -> prod (gatherp p dims) = prod dims.
Proof.
  intros [Hnd Hin] L.
  assert (P : Permutation p (seq 0 (length dims))).
  { apply NoDup_Permutation; [exact Hnd | apply seq_NoDup|]. intros x. rewrite Hin, in_seq. lia. }
  rewrite <- (gatherp_seq dims) at 2. apply prod_perm. unfold gatherp. apply Permutation_map. exact P.
Qed.
Lemma gatherp_pos p dims : (forall d, In d dims -> 0 < d) -> (forall m, In m p -> m < length dims) ->
  forall d, In d (gatherp p dims) -> 0 < d.
Proof. intros Hpos Hp d Hin. apply in_map_iff in Hin. destruct Hin as [m [<- Hm]]. apply Hpos. apply nth_In. apply Hp. exact Hm. Qed.

Section Proofs.
  Variable T : Type.
  Variables (p dims : list nat).
  Hypothesis Hp : is_perm p.
  Hypothesis HL : length dims = length p.
  Hypothesis Hpos : forall d, In d dims -> 0 < d.

  Let Hpm : forall m, In m p -> m < length dims.
  Proof. intros m Hm. rewrite HL. apply (proj2 Hp). exact Hm. Qed.

  (** C14, C++14 index map: out(i[p0],...,i[pk]) = A(i0,...,ik), extents shape[p[n]] *)
  Theorem permute14_spec (a : nat -> T) idx : in_range dims idx ->
    permute14 p dims a (flat (gatherp p dims) (gatherp p idx)) = a (flat dims idx).
  Proof.
    intros R. unfold permute14.
    destruct (scatter_spec T (fun c => flat (gatherp p dims) (gatherp p (unflat dims c))) (fun c _ => a c) (prod dims) a) as [Ha _].
    - intros c1 c2 H1 H2 E.
      pose proof (unflat_in_range dims c1 Hpos) as R1. pose proof (unflat_in_range dims c2 Hpos) as R2.
      apply flat_inj in E; try (apply gatherp_in_range; assumption).
      apply gatherp_inj in E; try exact Hp; try (rewrite (in_range_length _ _ R1) || rewrite (in_range_length _ _ R2); exact HL).
      rewrite <- (flat_unflat dims c1 Hpos H1), <- (flat_unflat dims c2 Hpos H2), E. reflexivity.
    - intros; reflexivity.
    - specialize (Ha (flat dims idx) (flat_lt dims idx R)). cbv beta in Ha. rewrite (unflat_flat dims idx R) in Ha. exact Ha.
  Qed.

  (** C14, C++17 index map (reverse map): the same specification *)
  Theorem permute17_spec (a : nat -> T) idx : in_range dims idx ->
    permute17 p dims a (flat (gatherp p dims) (gatherp p idx)) = a (flat dims idx).
  Proof.
    intros R. unfold permute17.
    pose proof (gatherp_in_range p dims idx R Hpm) as Ro.
    pose proof (flat_lt _ _ Ro) as Hlt. apply Nat.ltb_lt in Hlt. rewrite Hlt.
    rewrite (unflat_flat _ _ Ro). rewrite gatherp_invp_l; [reflexivity | exact Hp | rewrite (in_range_length _ _ R); exact HL].
  Qed.

  (** hence the two language-level branches agree on every element of the result *)
  Corollary permute_cxx14_eq_cxx17 (a : nat -> T) idx : in_range dims idx ->
    permute14 p dims a (flat (gatherp p dims) (gatherp p idx)) = permute17 p dims a (flat (gatherp p dims) (gatherp p idx)).
  Proof. intros R. rewrite permute14_spec, permute17_spec by exact R. reflexivity. Qed.

  (** every position of the result is of that form: the result is completely determined *)
  Lemma permute_onto o : o < prod (gatherp p dims) ->
    exists idx, in_range dims idx /\ o = flat (gatherp p dims) (gatherp p idx).
  Proof.
    intros Ho. set (od := gatherp p dims).
    assert (Hodpos : forall d, In d od -> 0 < d) by (apply gatherp_pos; assumption).
    pose proof (unflat_in_range od o Hodpos) as Ro.
    exists (gatherp (invp p) (unflat od o)). split.
    - replace dims with (gatherp (invp p) od) at 1 by (unfold od; apply gatherp_invp_l; assumption).
      apply gatherp_in_range; [exact Ro|]. intros m Hm. unfold od. rewrite gatherp_length.
      apply in_map_iff in Hm. destruct Hm as [i [<- Hi]]. apply in_seq in Hi.
      apply (index_of_lt i p). apply (proj2 Hp). lia.
    - rewrite gatherp_invp_r; [| exact Hp | rewrite (in_range_length _ _ Ro); unfold od; apply gatherp_length].
      symmetry. apply flat_unflat; assumption.
  Qed.
End Proofs.

(** tiled transpose *)
Lemma divmod_rowcol q r M : r < M -> (q * M + r) / M = q /\ (q * M + r) mod M = r.
Proof.
  intros Hr. split.
  - rewrite Nat.div_add_l by lia. rewrite Nat.div_small by exact Hr. lia.
  - rewrite Nat.add_comm, Nat.mod_add by lia. apply Nat.mod_small. exact Hr.
Qed.

Section Transpose.
  Variable S : Scalar.

  Lemma transpose_wr_value V M N (a : nat -> S) w p : 0 < V -> 0 < M ->
    In w (transpose_wrs V M N a) -> covers w p = true ->
    p < N * M /\ wval w (p - woff w) = a ((p mod M) * N + p / M).
  Proof.
    intros HV HM Hin Hc. unfold transpose_wrs in Hin.
    assert (HM0 : M / V * V <= M) by (rewrite Nat.mul_comm; apply Nat.mul_div_le; lia).
    assert (HN0 : N / V * V <= N) by (rewrite Nat.mul_comm; apply Nat.mul_div_le; lia).
    unfold covers in Hc. apply andb_prop in Hc. destruct Hc as [Hc _]. apply andb_prop in Hc. destruct Hc as [C1 C2].
    apply Nat.leb_le in C1. apply Nat.ltb_lt in C2.
    apply in_app_or in Hin. destruct Hin as [Hin|Hin].
    - apply in_flat_map in Hin. destruct Hin as [j [Hj Hin]]. apply in_loop_starts in Hj; [|lia]. destruct Hj as [[tj Ej] Hjlt].
      assert (Hjb : j + V <= N / V * V) by (subst j; assert (tj < N / V) by nia; nia).
      apply in_app_or in Hin. destruct Hin as [Hin|Hin].
      + apply in_flat_map in Hin. destruct Hin as [i [Hi Hin]]. apply in_loop_starts in Hi; [|lia]. destruct Hi as [[ti Ei] Hilt].
        assert (Hib : i + V <= M / V * V) by (subst i; assert (ti < M / V) by nia; nia).
        apply in_map_iff in Hin. destruct Hin as [jj [<- Hjj]]. apply in_seq in Hjj.
        cbn [woff wlen wval wr_store] in *.
        set (l := p - ((j + jj) * M + i)). assert (Hl : l < V) by (unfold l; lia).
        assert (Ep : p = (j + jj) * M + (i + l)) by (unfold l; lia).
        assert (Hil : i + l < M) by lia.
        split; [rewrite Ep; nia|].
        rewrite Ep. destruct (divmod_rowcol (j + jj) (i + l) M Hil) as [-> ->]. reflexivity.
      + apply in_flat_map in Hin. destruct Hin as [i [Hi Hin]]. apply in_seq in Hi.
        apply in_map_iff in Hin. destruct Hin as [jj [<- Hjj]]. apply in_seq in Hjj.
        cbn [woff wlen wval wr_store1] in *.
        assert (Ep : p = (j + jj) * M + i) by lia. assert (Hil : i < M) by lia.
        split; [rewrite Ep; nia|].
        rewrite Ep. destruct (divmod_rowcol (j + jj) i M Hil) as [-> ->]. f_equal; lia.
    - apply in_flat_map in Hin. destruct Hin as [j [Hj Hin]]. apply in_seq in Hj.
      apply in_map_iff in Hin. destruct Hin as [i [<- Hi]]. apply in_seq in Hi.
      cbn [woff wlen wval wr_store1] in *.
      assert (Ep : p = j * M + i) by lia. assert (Hil : i < M) by lia.
      split; [rewrite Ep; nia|].
      rewrite Ep. destruct (divmod_rowcol j i M Hil) as [-> ->]. reflexivity.
  Qed.

  Lemma transpose_covered V M N (a : nat -> S) i j : 0 < V -> i < M -> j < N ->
    existsb (fun w => covers w (j * M + i)) (transpose_wrs V M N a) = true.
  Proof.
    intros HV Hi Hj. apply existsb_exists. unfold transpose_wrs.
    set (M0 := M / V * V). set (N0 := N / V * V).
    assert (HM0 : M0 <= M) by (unfold M0; rewrite Nat.mul_comm; apply Nat.mul_div_le; lia).
    assert (HN0 : N0 <= N) by (unfold N0; rewrite Nat.mul_comm; apply Nat.mul_div_le; lia).
    destruct (Nat.lt_ge_cases j N0) as [Hj0|Hj0].
    - set (tj := j / V). assert (Htj : tj * V <= j < tj * V + V).
      { unfold tj. pose proof (Nat.div_mod j V ltac:(lia)). pose proof (Nat.mod_upper_bound j V ltac:(lia)). nia. }
      destruct (Nat.lt_ge_cases i M0) as [Hi0|Hi0].
      + set (ti := i / V). assert (Hti : ti * V <= i < ti * V + V).
        { unfold ti. pose proof (Nat.div_mod i V ltac:(lia)). pose proof (Nat.mod_upper_bound i V ltac:(lia)). nia. }
        exists (wr_store ((tj * V + (j - tj * V)) * M + ti * V) V (fun l => a ((ti * V + l) * N + (tj * V + (j - tj * V))))).
        split.
        * apply in_or_app. left. apply in_flat_map. exists (tj * V). split; [apply in_loop_starts; [lia|]; split; [exists tj; lia|lia]|].
          apply in_or_app. left. apply in_flat_map. exists (ti * V). split; [apply in_loop_starts; [lia|]; split; [exists ti; lia|lia]|].
          apply in_map_iff. exists (j - tj * V). split; [reflexivity|]. apply in_seq. lia.
        * unfold covers. cbn [woff wlen won wr_store]. rewrite andb_true_r. apply andb_true_intro.
          replace (tj * V + (j - tj * V)) with j by lia. split; [apply Nat.leb_le | apply Nat.ltb_lt]; lia.
      + exists (wr_store1 ((tj * V + (j - tj * V)) * M + i) (a (i * N + tj * V + (j - tj * V)))). split.
        * apply in_or_app. left. apply in_flat_map. exists (tj * V). split; [apply in_loop_starts; [lia|]; split; [exists tj; lia|lia]|].
          apply in_or_app. right. apply in_flat_map. exists i. split; [apply in_seq; fold M0; lia|].
          apply in_map_iff. exists (j - tj * V). split; [reflexivity|]. apply in_seq. lia.
        * unfold covers. cbn [woff wlen won wr_store1]. rewrite andb_true_r. apply andb_true_intro.
          replace (tj * V + (j - tj * V)) with j by lia. split; [apply Nat.leb_le | apply Nat.ltb_lt]; lia.
    - exists (wr_store1 (j * M + i) (a (i * N + j))). split.
      + apply in_or_app. right. apply in_flat_map. exists j. split; [apply in_seq; fold N0; lia|].
        apply in_map_iff. exists i. split; [reflexivity|]. apply in_seq. lia.
      + unfold covers. cbn [woff wlen won wr_store1]. rewrite andb_true_r. apply andb_true_intro.
        split; [apply Nat.leb_le | apply Nat.ltb_lt]; lia.
  Qed.

  (** C14: the tiled transpose (any lane count) writes out[j*M+i] = a[i*N+j] for every (i,j) and nothing else *)
  Theorem transpose_tiled_spec V M N (a c0 : nat -> S) : 0 < V -> 0 < M ->
    (forall i j, i < M -> j < N -> transpose_tiled V M N a c0 (j * M + i) = a (i * N + j)) /\
    (forall p, N * M <= p -> transpose_tiled V M N a c0 p = c0 p).
  Proof.
    intros HV HM. unfold transpose_tiled. split.
    - intros i j Hi Hj.
      rewrite (run_wrs_spec S (fun p => a ((p mod M) * N + p / M))).
      + rewrite transpose_covered by assumption.
        destruct (divmod_rowcol j i M Hi) as [-> ->]. reflexivity.
      + intros w Hin q Hc. apply (transpose_wr_value V M N a w q HV HM Hin Hc).
    - intros p Hp. apply run_wrs_frame with (n := N * M); [|exact Hp].
      intros w Hin q Hc. apply (transpose_wr_value V M N a w q HV HM Hin Hc).
  Qed.
End Transpose.
