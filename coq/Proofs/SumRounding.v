(** Forward error of the floating-point sum as the library computes it (Model/Reduce.v:
    W lane accumulators, horizontal fold, scalar tail, final combination), over the
    floating scalar of Base/Rounding.v, for every lane count W and size n:

       |sum_fl - sum_i x_i| <= ((1+u)^n - 1) * sum_i |x_i|

    for inputs that are floating-point numbers (rnd x = x).  The depth actually reached is
    n/W + W - 1 (stated as [reduce_float_depth]), which is what makes the vector sum more
    accurate than the scalar loop for large n. *)
From Coq Require Import Reals Lra Lia List Arith Psatz.
From FastorV Require Import Base.Scalar Base.BigSum Base.Rounding Model.Reduce Proofs.ReduceProofs.
Import ListNotations.
Local Open Scope R_scope.

(** exact real arithmetic as a Scalar (to name the exact sums) *)
Definition RS : Scalar :=
  mkScalar R 0 1 Rplus Rmult Rminus Ropp (fun a b c => a * b + c) Rdiv (fun _ _ => false) (fun _ _ => false).
Lemma RS_laws : RingLaws RS.
Proof. constructor; intros; simpl; try ring. Qed.

Lemma Rsum_from_nonneg g n : forall lo x0, (forall i, 0 <= g i) -> 0 <= x0 -> 0 <= Rsum_from lo n g x0.
Proof.
  induction n as [|n IH]; intros lo x0 Hg Hx; [exact Hx|].
  rewrite Rsum_from_shift. apply IH; [exact Hg|]. pose proof (Hg lo). lra.
Qed.

Section SumRounding.
  Variable rnd : R -> R.
  Variable u : R.
  Hypothesis u_nonneg : 0 <= u.
  Hypothesis rnd_err : forall x, Rabs (rnd x - x) <= u * Rabs x.
  Hypothesis rnd_idem : forall x, rnd (rnd x) = rnd x.
  Let fadd (a b : R) : R := rnd (a + b).
  Notation E := (E u).

  (** x is a float approximating the exact sum s of terms with absolute sum t through at most d roundings *)
  Definition Ap (d : nat) (x s t : R) : Prop := rnd x = x /\ Rabs (x - s) <= E d * t /\ Rabs s <= t.
  Definition Apz (d : nat) (x s t : R) : Prop := (x = 0 /\ s = 0 /\ t = 0) \/ Ap d x s t.

  Lemma Ap_mono d d' x s t : (d <= d')%nat -> Ap d x s t -> Ap d' x s t.
  Proof.
    intros Hd (Hx & He & Hs). split; [exact Hx|]. split; [|exact Hs].
    pose proof (E_mono u u_nonneg d d' Hd). pose proof (Rabs_pos s). nra.
  Qed.
  Lemma Apz_mono d d' x s t : (d <= d')%nat -> Apz d x s t -> Apz d' x s t.
  Proof. intros Hd [H|H]; [left; exact H | right; eapply Ap_mono; eassumption]. Qed.

  Lemma Ap_add d x1 s1 t1 x2 s2 t2 :
    Ap d x1 s1 t1 -> Ap d x2 s2 t2 -> Ap (S d) (fadd x1 x2) (s1 + s2) (t1 + t2).
  Proof.
    intros (_ & He1 & Hs1) (_ & He2 & Hs2). unfold fadd. split; [apply rnd_idem|]. split.
    - pose proof (rnd_err (x1 + x2)) as Hr. pose proof (E_nonneg u u_nonneg d) as HE.
      pose proof (Rabs_pos s1). pose proof (Rabs_pos s2).
      assert (Hy : Rabs (x1 + x2) <= (t1 + t2) + E d * (t1 + t2)).
      { replace (x1 + x2) with ((s1 + s2) + ((x1 - s1) + (x2 - s2))) by ring.
        eapply Rle_trans; [apply Rabs_triang|].
        pose proof (Rabs_triang s1 s2). pose proof (Rabs_triang (x1 - s1) (x2 - s2)). lra. }
      replace (rnd (x1 + x2) - (s1 + s2)) with ((rnd (x1 + x2) - (x1 + x2)) + ((x1 - s1) + (x2 - s2))) by ring.
      eapply Rle_trans; [apply Rabs_triang|].
      pose proof (Rabs_triang (x1 - s1) (x2 - s2)).
      rewrite E_S.
      assert (u * Rabs (x1 + x2) <= u * ((t1 + t2) + E d * (t1 + t2))) by (apply Rmult_le_compat_l; lra).
      set (X := Rabs (rnd (x1 + x2) - (x1 + x2))) in *. set (Y := Rabs (x1 - s1 + (x2 - s2))) in *.
      set (Q := Rabs (x1 + x2)) in *. set (Ed := E d) in *. clearbody X Y Q Ed. nra.
    - eapply Rle_trans; [apply Rabs_triang|]. lra.
  Qed.

  Lemma fadd_0_l x : rnd x = x -> fadd 0 x = x.
  Proof. intros H. unfold fadd. rewrite Rplus_0_l. exact H. Qed.
  Lemma fadd_0_r x : rnd x = x -> fadd x 0 = x.
  Proof. intros H. unfold fadd. rewrite Rplus_0_r. exact H. Qed.

  (** a sequential fold of approximations, each of depth at most the current one *)
  Lemma fold3 (vx vs vt : nat -> R) l : forall d x s t,
    Ap d x s t -> (forall i, In i l -> Ap d (vx i) (vs i) (vt i)) ->
    Ap (d + length l) (fold_left fadd (map vx l) x) (fold_left Rplus (map vs l) s) (fold_left Rplus (map vt l) t).
  Proof.
    induction l as [|i l IH]; intros d x s t Hx Hl; simpl.
    - rewrite Nat.add_0_r. exact Hx.
    - replace (d + S (length l))%nat with (S d + length l)%nat by lia.
      apply IH.
      + apply Ap_add; [exact Hx | apply Hl; left; reflexivity].
      + intros k Hk. eapply Ap_mono; [|apply Hl; right; exact Hk]. lia.
  Qed.

  Variable f : nat -> R.
  Hypothesis f_float : forall i, rnd (f i) = f i.
  Let af (i : nat) : R := Rabs (f i).

  Lemma Ap_input i : Ap 0 (f i) (f i) (af i).
  Proof.
    split; [apply f_float|]. split; [|unfold af; lra].
    replace (f i - f i) with 0 by ring. rewrite Rabs_R0. rewrite E_0. unfold af. pose proof (Rabs_pos (f i)). lra.
  Qed.

  (** the scalar tail: fold from an exact zero over r elements *)
  Lemma tail_Ap lo r : (1 <= r)%nat ->
    Ap (r - 1) (fold_left fadd (map f (seq lo r)) 0) (fold_left Rplus (map f (seq lo r)) 0) (fold_left Rplus (map af (seq lo r)) 0).
  Proof.
    intros Hr. destruct r as [|r]; [lia|]. cbn [seq map fold_left].
    rewrite fadd_0_l, !Rplus_0_l by apply f_float.
    replace (S r - 1)%nat with (0 + length (seq (S lo) r))%nat by (rewrite seq_length; lia).
    apply fold3; [apply Ap_input | intros i _; apply Ap_input].
  Qed.

  (** lane accumulators after c >= 1 chunks *)
  Lemma lane_Ap W c l : (1 <= c)%nat ->
    Ap (c - 1) (lane_acc fadd 0 W f c l) (lane_acc Rplus 0 W f c l) (lane_acc Rplus 0 W af c l).
  Proof.
    induction c as [|c IH]; [lia|]. intros _. destruct c as [|c].
    - cbn [lane_acc]. rewrite fadd_0_l, !Rplus_0_l by apply f_float. apply Ap_input.
    - cbn [lane_acc] in *. replace (S (S c) - 1)%nat with (S (S c - 1)) by lia.
      apply Ap_add; [apply IH; lia | eapply Ap_mono; [|apply Ap_input]; lia].
  Qed.

  Lemma hfold_zero W : hfold fadd W (fun _ => 0) = 0.
  Proof.
    unfold hfold. induction (seq 1 (W - 1)) as [|i l IH]; simpl; [reflexivity|].
    unfold fadd at 2. rewrite Rplus_0_l, (rnd_0 rnd u rnd_err). exact IH.
  Qed.
  Lemma hfold_zero_exact W : hfold Rplus W (fun _ => 0) = 0.
  Proof.
    unfold hfold. induction (seq 1 (W - 1)) as [|i l IH]; simpl; [reflexivity|]. rewrite Rplus_0_l. exact IH.
  Qed.

  (** the whole reduction, structurally: depth n/W + W - 1 at most (and at most n) *)
  Theorem reduce_float_depth W n : (0 < W)%nat -> (0 < n)%nat ->
    Ap (Nat.min (n / W + W - 1) n) (reduce fadd 0 W n f) (reduce Rplus 0 W n f) (reduce Rplus 0 W n af).
  Proof.
    intros HW Hn. unfold reduce. set (c := (n / W)%nat). set (r := (n - c * W)%nat).
    assert (Hdm : (n = c * W + n mod W)%nat) by (unfold c; rewrite (Nat.mul_comm (n / W) W); apply Nat.div_mod; lia).
    assert (Hc : (c * W <= n)%nat) by (unfold c; rewrite Nat.mul_comm; apply Nat.mul_div_le; lia).
    assert (Hr : (r < W)%nat).
    { unfold r, c. pose proof (Nat.div_mod n W ltac:(lia)). pose proof (Nat.mod_upper_bound n W ltac:(lia)). nia. }
    destruct (Nat.eq_dec c 0) as [Hc0|Hc0].
    - (* no full chunk: the lanes stay at the exact zero seed *)
      rewrite Hc0. cbn [lane_acc]. rewrite hfold_zero, !hfold_zero_exact.
      assert (Hr1 : (1 <= r)%nat) by (unfold r; rewrite Hc0; simpl; lia).
      pose proof (tail_Ap (0 * W) r Hr1) as (Hx & He & Hs).
      rewrite fadd_0_l, !Rplus_0_l by exact Hx.
      eapply Ap_mono; [|repeat split; eassumption]. unfold r. rewrite Hc0. simpl. lia.
    - assert (Hc1 : (1 <= c)%nat) by lia.
      assert (Hcn : (c + W - 1 <= n)%nat) by nia.
      assert (Hh : Ap (c - 1 + (W - 1)) (hfold fadd W (lane_acc fadd 0 W f c)) (hfold Rplus W (lane_acc Rplus 0 W f c))
                      (hfold Rplus W (lane_acc Rplus 0 W af c))).
      { unfold hfold. replace (W - 1)%nat with (length (seq 1 (W - 1))) at 1 by apply seq_length.
        apply fold3; [apply lane_Ap; exact Hc1 | intros i _; apply lane_Ap; exact Hc1]. }
      destruct (Nat.eq_dec r 0) as [Hr0|Hr0].
      + rewrite Hr0. cbn [seq map fold_left]. destruct Hh as (Hx & He & Hs).
        rewrite fadd_0_r, !Rplus_0_r by exact Hx. eapply Ap_mono; [|repeat split; eassumption]. lia.
      + assert (Hr1 : (1 <= r)%nat) by lia.
        pose proof (tail_Ap (c * W) r Hr1) as Ht.
        replace (Nat.min (c + W - 1) n) with (S (c - 1 + (W - 1))) by lia.
        apply Ap_add; [exact Hh | eapply Ap_mono; [|exact Ht]; lia].
  Qed.

  (** C16, floating sums: for every lane count and size the computed sum is within
      ((1+u)^n - 1) * sum |x_i| of the exact sum *)
  Theorem sum_float_bound W n : (0 < W)%nat ->
    Rabs (reduce fadd 0 W n f - Rsum f n) <= E n * Rsum af n.
  Proof.
    intros HW. destruct (Nat.eq_dec n 0) as [->|Hn].
    - unfold reduce. rewrite Nat.div_0_l by lia. cbn [lane_acc]. rewrite hfold_zero. simpl.
      unfold fadd. rewrite Rplus_0_l, (rnd_0 rnd u rnd_err). unfold Rsum, Rsum_from. simpl.
      rewrite Rminus_0_r, Rabs_R0, E_0. lra.
    - pose proof (reduce_float_depth W n HW ltac:(lia)) as (_ & He & _).
      pose proof (sum_exact RS RS_laws W n f HW) as Hs. pose proof (sum_exact RS RS_laws W n af HW) as Ht.
      simpl in Hs, Ht. rewrite Hs, Ht in He.
      change (sum_n (S:=RS) f n) with (Rsum f n) in He. change (sum_n (S:=RS) af n) with (Rsum af n) in He.
      eapply Rle_trans; [exact He|].
      assert (Hd : (Nat.min (n / W + W - 1) n <= n)%nat) by lia.
      pose proof (E_mono u u_nonneg _ _ Hd).
      assert (0 <= Rsum af n) by (apply Rsum_from_nonneg; [intros i; unfold af; apply Rabs_pos | lra]).
      apply Rmult_le_compat_r; assumption.
  Qed.
End SumRounding.
