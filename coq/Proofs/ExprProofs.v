From Coq Require Import Arith List Lia Bool.
From FastorV Require Import Base.Scalar Base.Mem Base.Tiling Model.Expr.
Import ListNotations.

Section Proofs.
  Variable S : Scalar.
  Variable o : sops S.
  Variable d : nat.                 (* destination tensor number *)
  Variable aop : option nat.
  Variable e : expr S.

  (* the value the assignment gives position p, computed from memory m *)
  Definition pw (m : mem S) (p : nat) : S :=
    match aop with None => eval_s o m e p | Some op => s_bin o op (m d p) (eval_s o m e p) end.

  Lemma eval_s_pw (m m' : mem S) ex p : (forall k, m k p = m' k p) -> eval_s o m ex p = eval_s o m' ex p.
  Proof. intros H. induction ex as [k|c|op e1 IH|op e1 IH1 e2 IH2]; simpl; [apply H|reflexivity|rewrite IH; reflexivity|rewrite IH1, IH2; reflexivity]. Qed.

  Lemma pw_ext (m m' : mem S) p : (forall k, m k p = m' k p) -> pw m p = pw m' p.
  Proof. intros H. unfold pw. destruct aop; rewrite ?(H d), (eval_s_pw m m' e p H); reflexivity. Qed.

  Lemma eval_v_lane (v : vops S) W (m : mem S) ex i l :
    lanewise_ok o v W -> l < W -> eval_v v m ex i l = eval_s o m ex (i + l).
  Proof.
    intros [Hu Hb] Hl. induction ex as [k|c|op e1 IH|op e1 IH1 e2 IH2]; simpl.
    - reflexivity.
    - reflexivity.
    - rewrite Hu by exact Hl. rewrite IH. reflexivity.
    - rewrite Hb by exact Hl. rewrite IH1, IH2. reflexivity.
  Qed.

  (** characterisation of a step that rewrites [i, i+len) of the destination pointwise *)
  Definition chunk_step (stp : mem S -> nat -> mem S) (len : nat) : Prop :=
    forall m i k p, stp m i k p = if (k =? d) && (i <=? p) && (p <? i + len) then pw m p else m k p.

  Lemma step_vec_chunk (v : vops S) W : lanewise_ok o v W -> chunk_step (step_vec o v W d aop e) W.
  Proof.
    intros Hok m i k p. unfold step_vec, upd, store, apply_wr, wr_store; cbn [woff wlen won wval].
    destruct (Nat.eqb_spec k d) as [->|Hk]; cbn [andb]; [|reflexivity].
    rewrite andb_true_r.
    destruct ((i <=? p) && (p <? i + W)) eqn:E; [|reflexivity].
    apply andb_prop in E. destruct E as [E1 E2]. apply Nat.leb_le in E1. apply Nat.ltb_lt in E2.
    assert (Hl : p - i < W) by lia.
    unfold pw. destruct aop as [op|].
    - destruct Hok as [Hu Hb]. rewrite Hb by exact Hl. unfold vload.
      rewrite (eval_v_lane v W m e i (p - i) (conj Hu Hb) Hl).
      replace (i + (p - i)) with p by lia. reflexivity.
    - rewrite (eval_v_lane v W m e i (p - i) Hok Hl). replace (i + (p - i)) with p by lia. reflexivity.
  Qed.

  Lemma step_scal_chunk : chunk_step (step_scal o d aop e) 1.
  Proof.
    intros m i k p. unfold step_scal, upd, store1, apply_wr, wr_store1; cbn [woff wlen won wval].
    destruct (Nat.eqb_spec k d) as [->|Hk]; cbn [andb]; [|reflexivity].
    rewrite andb_true_r.
    destruct ((i <=? p) && (p <? i + 1)) eqn:E; [|reflexivity].
    apply andb_prop in E. destruct E as [E1 E2]. apply Nat.leb_le in E1. apply Nat.ltb_lt in E2.
    assert (p = i) by lia. subst p. unfold pw. destruct aop; reflexivity.
  Qed.

  (** sweeping consecutive chunks of equal length over the destination *)
  Lemma sweep_uniform stp len (m0 : mem S) : chunk_step stp len ->
    forall cnt s (m : mem S),
      (forall k p, s <= p -> m k p = m0 k p) ->
      forall k p,
        fold_left stp (map (fun t => s + t * len) (seq 0 cnt)) m k p =
        if (k =? d) && (s <=? p) && (p <? s + cnt * len) then pw m0 p else m k p.
  Proof.
    intros Hstp. induction cnt as [|cnt IH]; intros s m Hm k p.
    - simpl. destruct (Nat.leb_spec s p), (Nat.ltb_spec p (s + 0)); rewrite ?andb_false_r, ?andb_true_r; cbn [andb]; try reflexivity; exfalso; lia.
    - cbn [seq map fold_left]. rewrite <- (seq_shift cnt 0), map_map.
      rewrite (map_ext _ (fun t => (s + len) + t * len)) by (intros t; simpl; lia).
      replace (s + 0 * len) with s by lia.
      rewrite IH.
      + rewrite Hstp.
        destruct (Nat.eqb_spec k d) as [->|Hk]; cbn [andb]; [|reflexivity].
        destruct (Nat.leb_spec (s + len) p) as [H1|H1], (Nat.ltb_spec p (s + len + cnt * len)) as [H2|H2],
                 (Nat.leb_spec s p) as [H3|H3], (Nat.ltb_spec p (s + len)) as [H4|H4],
                 (Nat.ltb_spec p (s + Datatypes.S cnt * len)) as [H5|H5]; cbn [andb]; try reflexivity; try (exfalso; simpl in *; lia).
        apply pw_ext. intros k0. apply Hm. lia.
      + intros k0 p0 Hp0. rewrite Hstp.
        replace ((k0 =? d) && (s <=? p0) && (p0 <? s + len)) with false; [apply Hm; lia|].
        symmetry. destruct (Nat.ltb_spec p0 (s + len)); [lia|]. rewrite andb_false_r. reflexivity.
  Qed.

  Lemma seq_as_starts s c : seq s c = map (fun t => s + t * 1) (seq 0 c).
  Proof.
    revert s. induction c as [|c IH]; intros s; [reflexivity|].
    cbn [seq map]. rewrite <- (seq_shift c 0), map_map. f_equal; [lia|].
    rewrite IH. apply map_ext. intros t. lia.
  Qed.

  Lemma loop_starts_full W n : 0 < W ->
    loop_starts 0 (n / W * W) W = map (fun t => 0 + t * W) (seq 0 (n / W)).
  Proof.
    intros HW. unfold loop_starts. f_equal. f_equal.
    replace (n / W * W - 0 + W - 1) with ((W - 1) + (n / W) * W) by lia.
    rewrite Nat.div_add by lia. rewrite Nat.div_small by lia. reflexivity.
  Qed.

  (** C02 (and the element-wise aliasing clause of C09): assignment of any expression,
      any size, any lane count, plain or compound, equals the scalar operation applied
      at every flat position to the original contents; nothing else changes. *)
  Theorem assign_pointwise (v : vops S) W n boolean (m : mem S) :
    0 < W -> lanewise_ok o v W ->
    forall k p, assign o v W d n boolean aop e m k p = assign_spec o d n aop e m k p.
  Proof.
    intros HW Hok k p. unfold assign, assign_spec. fold (pw m p).
    destruct boolean.
    - rewrite (seq_as_starts 0 n).
      rewrite (sweep_uniform _ 1 m step_scal_chunk n 0 m (fun _ _ _ => eq_refl)).
      rewrite Nat.mul_1_r. cbn [Nat.leb Nat.add]. rewrite andb_true_r. reflexivity.
    - rewrite (loop_starts_full W n HW).
      set (m1 := fold_left (step_vec o v W d aop e) (map (fun t => 0 + t * W) (seq 0 (n / W))) m).
      assert (Hm1 : forall k p, m1 k p = if (k =? d) && (0 <=? p) && (p <? 0 + n / W * W) then pw m p else m k p).
      { intros k0 p0. unfold m1. apply (sweep_uniform _ W m (step_vec_chunk v W Hok) (n / W) 0 m (fun _ _ _ => eq_refl)). }
      set (n0 := n / W * W) in *.
      assert (Hn0 : n0 <= n) by (unfold n0; rewrite Nat.mul_comm; apply Nat.mul_div_le; lia).
      rewrite (seq_as_starts n0 (n - n0)).
      rewrite (sweep_uniform _ 1 m step_scal_chunk (n - n0) n0 m1).
      + rewrite Hm1.
        destruct (Nat.eqb_spec k d) as [->|Hk]; cbn [andb]; [|reflexivity].
        cbn [Nat.leb Nat.add].
        destruct (Nat.leb_spec n0 p), (Nat.ltb_spec p (n0 + (n - n0) * 1)), (Nat.ltb_spec p n0), (Nat.ltb_spec p n);
          cbn [andb]; try reflexivity; exfalso; lia.
      + intros k0 p0 Hp0. rewrite Hm1. cbn [Nat.leb Nat.add].
        replace (p0 <? n0) with false; [rewrite andb_false_r; reflexivity|].
        symmetry. apply Nat.ltb_ge. exact Hp0.
  Qed.
End Proofs.

(** the canonical lane-wise vector operations satisfy the hypothesis *)
Lemma lanewise_ok_canonical (S : Scalar) (o : sops S) W : lanewise_ok o (vops_of o) W.
Proof. split; intros; reflexivity. Qed.
