(** qr_mgsr_dispatcher (expressions/linalg_ops/unary_qr_op.h) as translated on every run
    (Gen/GeneratedAccess.v: [gen_qr_mgs_indices], [gen_qr_mgs_inner_start]; the translator accepts only the
    statement structure  A = copy of A0; R.fill(0); for i < N { step 1..4 }  with the loops k < M and
    j0 <= j < N) against the model [step] of Proofs/QRProofs.v: one iteration of the model satisfies the four
    statements of the source, read with the source's own index expressions. *)
From Coq Require Import Arith List Lia Bool.
From FastorV Require Import Base.Scalar Base.BigSum Base.Field Proofs.QRProofs Gen.GeneratedAccess.
Import ListNotations.

Definition at_ {S : Scalar} (a : mat S) (p : nat * nat) : S := a (fst p) (snd p).
Definition qix (i j k n : nat) : nat * nat := nth n (gen_qr_mgs_indices i j k) (0, 0).

Lemma gen_qr_mgs_indices_eq i j k :
  gen_qr_mgs_indices i j k = [(k, i); (k, i); (i, i); (k, i); (k, i); (i, j); (k, i); (k, j); (k, j); (k, i); (i, j)] /\
  gen_qr_mgs_inner_start i = [i + 1; i + 1].
Proof. split; reflexivity. Qed.

Section Tie.
  Variable S : Scalar.
  Variable M : nat.
  Variable nrm : (nat -> S) -> S.
  Variable s : st S.
  Variable i : nat.
  Let s' := step S M nrm s i.
  Let rii := nrm (fun k => at_ (Aw S s) (qix i 0 k 0)).

  (** step 1: R_ii accumulates A(k,i)*A(k,i) over k (both factors the same entry), R(i,i) = R_ii *)
  Lemma qr_step1 j k : qix i j k 0 = qix i j k 1 /\ at_ (Rm S s') (qix i j k 2) = rii.
  Proof. split; [reflexivity|]. unfold at_, qix, s', rii, gen_qr_mgs_indices; cbn [nth fst snd step Qm Rm Aw]. rewrite !Nat.eqb_refl. reflexivity. Qed.

  (** step 2: Q(k,i) = A(k,i) / R_ii *)
  Lemma qr_step2 j k : at_ (Qm S s') (qix i j k 3) = sdiv S (at_ (Aw S s) (qix i j k 4)) rii.
  Proof. unfold at_, qix, s', rii, gen_qr_mgs_indices; cbn [nth fst snd step Qm Rm Aw]. rewrite Nat.eqb_refl. reflexivity. Qed.

  (** step 3: for j0 <= j: R(i,j) = sum over k < M of Q(k,i) * A(k,j) (R(i,j) was 0: R.fill(0), row i untouched so far) *)
  Lemma qr_step3 j k : nth 0 (gen_qr_mgs_inner_start i) 0 <= j ->
    at_ (Rm S s') (qix i j k 5) = sum_n (fun k' => smul S (at_ (Qm S s') (qix i j k' 6)) (at_ (Aw S s) (qix i j k' 7))) M.
  Proof.
    unfold gen_qr_mgs_inner_start; cbn [nth]. intros Hj. unfold at_, qix, s', gen_qr_mgs_indices; cbn [nth fst snd step Qm Rm Aw]. rewrite !Nat.eqb_refl.
    destruct (Nat.eqb_spec j i); [lia|]. destruct (Nat.ltb_spec i j); [|lia]. reflexivity.
  Qed.

  (** step 4: for j0 <= j: A(k,j) -= Q(k,i) * R(i,j) *)
  Lemma qr_step4 j k : nth 1 (gen_qr_mgs_inner_start i) 0 <= j ->
    at_ (Aw S s') (qix i j k 8) = ssub S (at_ (Aw S s) (qix i j k 8)) (smul S (at_ (Qm S s') (qix i j k 9)) (at_ (Rm S s') (qix i j k 10))).
  Proof.
    unfold gen_qr_mgs_inner_start; cbn [nth]. intros Hj. unfold at_, qix, s', gen_qr_mgs_indices; cbn [nth fst snd step Qm Rm Aw]. rewrite !Nat.eqb_refl.
    destruct (Nat.ltb_spec i j); [|lia]. destruct (Nat.eqb_spec j i); [lia|]. reflexivity.
  Qed.

  (** nothing else changes: columns other than i of Q, rows other than i of R, columns j < j0 of A *)
  Lemma qr_frame k p j :
    (p <> i -> Qm S s' k p = Qm S s k p) /\ (p <> i -> Rm S s' p j = Rm S s p j) /\
    (j < nth 1 (gen_qr_mgs_inner_start i) 0 -> Aw S s' k j = Aw S s k j).
  Proof.
    unfold s', gen_qr_mgs_inner_start; cbn [nth step Qm Rm Aw]. repeat split.
    - intros Hp. destruct (Nat.eqb_spec p i); [contradiction | reflexivity].
    - intros Hp. destruct (Nat.eqb_spec p i); [contradiction | reflexivity].
    - intros Hj. destruct (Nat.ltb_spec i j); [lia | reflexivity].
  Qed.
End Tie.
