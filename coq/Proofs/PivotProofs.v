(** Pivoting (Model/Pivot.v), every size, any comparison, any matrix:
    the permutation returned by the pre-pivot is a bijection of {0..n-1};
    apply_pivot gathers rows, reconstruct scatters them back: reconstruct(apply_pivot(A,P),P) = A,
    hence reconstruct(L,U,P) = A whenever L*U = P*A; reconstruct_colwise turns an inverse of
    P*A into an inverse of A. *)
From Coq Require Import Arith List Bool Lia.
From FastorV Require Import Base.Scalar Base.BigSum Model.Pivot.
Import ListNotations.

Definition bij (n : nat) (p : nat -> nat) : Prop :=
  (forall i, i < n -> p i < n) /\ (forall i j, i < n -> j < n -> p i = p j -> i = j) /\ (forall r, r < n -> exists i, i < n /\ p i = r).

Lemma bij_id n : bij n (fun i => i).
Proof. repeat split; intros; eauto. Qed.

Lemma bij_swap n p a b : a < n -> b < n -> bij n p -> bij n (swapf p a b).
Proof.
  intros Ha Hb (Hr & Hi & Hs). unfold swapf. repeat split.
  - intros i Hin. destruct (i =? a), (i =? b); auto.
  - intros i j Hin Hjn.
    destruct (Nat.eqb_spec i a), (Nat.eqb_spec j a), (Nat.eqb_spec i b), (Nat.eqb_spec j b); subst; intros H;
      try reflexivity; try (apply Hi in H; auto; congruence); try congruence.
  - intros r Hrn. destruct (Hs r Hrn) as (i & Hin & <-).
    destruct (Nat.eq_dec i a) as [->|Hia].
    + exists b. split; [exact Hb|]. destruct (Nat.eqb_spec b a); [subst; reflexivity|]. rewrite Nat.eqb_refl. reflexivity.
    + destruct (Nat.eq_dec i b) as [->|Hib].
      * exists a. split; [exact Ha|]. rewrite Nat.eqb_refl. reflexivity.
      * exists i. split; [exact Hin|]. destruct (Nat.eqb_spec i a); [contradiction|]. destruct (Nat.eqb_spec i b); [contradiction|]. reflexivity.
Qed.

Section PivotProofs.
  Variable T : Type.
  Variable gt : T -> T -> bool.

  Lemma argmax_col_range (A : nat -> nat -> T) n j : j < n -> j <= argmax_col gt A n j < n.
  Proof.
    intros Hj. unfold argmax_col.
    assert (H : forall l mi, j <= mi < n -> (forall i, In i l -> j <= i < n) ->
                j <= fold_left (fun mi i => if gt (A i j) (A mi j) then i else mi) l mi < n).
    { induction l as [|i l IH]; intros mi Hmi Hl; simpl; [exact Hmi|].
      apply IH; [|intros k Hk; apply Hl; right; exact Hk].
      destruct (gt (A i j) (A mi j)); [apply Hl; left; reflexivity | exact Hmi]. }
    apply H; [lia|]. intros i Hi. apply in_seq in Hi. lia.
  Qed.

  (** C11: the returned permutation is a bijection, whatever the matrix and the comparison *)
  Theorem pivot_perm_bij (A : nat -> nat -> T) n : bij n (pivot_perm gt A n).
  Proof.
    unfold pivot_perm.
    assert (H : forall l p, bij n p -> (forall j, In j l -> j < n) -> bij n (fold_left (pivot_step gt A n) l p)).
    { induction l as [|j l IH]; intros p Hp Hl; simpl; [exact Hp|].
      apply IH; [|intros k Hk; apply Hl; right; exact Hk].
      unfold pivot_step. assert (Hj : j < n) by (apply Hl; left; reflexivity).
      destruct (j =? argmax_col gt A n j); [exact Hp|].
      apply bij_swap; [exact Hj | apply argmax_col_range; exact Hj | exact Hp]. }
    apply H; [apply bij_id|]. intros j Hj. apply in_seq in Hj. lia.
  Qed.

  (** apply_pivot is the gather of rows (the P(i) = i shortcut changes nothing) *)
  Lemma apply_pivot_spec n (A : nat -> nat -> T) P r c : r < n -> apply_pivot n A P r c = A (P r) c.
  Proof.
    intros Hr. unfold apply_pivot.
    assert (H : forall l B, NoDup l ->
              (forall r', ~ In r' l -> fold_left (fun B i => if P i =? i then B else fun r c => if r =? i then A (P i) c else B r c) l B r' c = B r' c) /\
              (forall r', In r' l -> fold_left (fun B i => if P i =? i then B else fun r c => if r =? i then A (P i) c else B r c) l B r' c
                                     = if P r' =? r' then B r' c else A (P r') c)).
    { induction l as [|i l IH]; intros B Hnd; simpl; [split; [reflexivity | intros r' []]|].
      inversion Hnd as [|? ? Hni Hnd']; subst. split.
      - intros r' Hnin. destruct (IH (if P i =? i then B else fun r c => if r =? i then A (P i) c else B r c) Hnd') as [H1 _].
        rewrite H1 by tauto. destruct (P i =? i); [reflexivity|]. destruct (Nat.eqb_spec r' i); [subst; tauto | reflexivity].
      - intros r' [<-|Hin].
        + destruct (IH (if P i =? i then B else fun r c => if r =? i then A (P i) c else B r c) Hnd') as [H1 _].
          rewrite H1 by exact Hni. destruct (P i =? i); [reflexivity|]. rewrite Nat.eqb_refl. reflexivity.
        + destruct (IH (if P i =? i then B else fun r c => if r =? i then A (P i) c else B r c) Hnd') as [_ H2].
          rewrite H2 by exact Hin. destruct (P r' =? r'); [|reflexivity].
          destruct (P i =? i); [reflexivity|]. destruct (Nat.eqb_spec r' i); [subst; contradiction | reflexivity]. }
    destruct (H (seq 0 n) A (seq_NoDup n 0)) as [_ H2]. rewrite H2 by (apply in_seq; lia).
    destruct (Nat.eqb_spec (P r) r) as [E|E]; [rewrite E; reflexivity | reflexivity].
  Qed.

  (** reconstruct scatters row i to row P(i) *)
  Lemma reconstruct_spec n (A : nat -> nat -> T) P i c : bij n P -> i < n -> reconstruct n A P (P i) c = A i c.
  Proof.
    intros (Hr & Hinj & _) Hi. unfold reconstruct.
    set (step := fun (B : nat -> nat -> T) i => if P i =? i then B else fun r c => if r =? P i then A i c else B r c).
    assert (H : forall l B, NoDup l -> (forall k, In k l -> k < n) ->
              (forall r', (forall k, In k l -> P k <> r') -> fold_left step l B r' c = B r' c) /\
              (forall k, In k l -> fold_left step l B (P k) c = if P k =? k then B k c else A k c)).
    { induction l as [|k0 l IH]; intros B Hnd Hl; simpl; [split; [reflexivity | intros k []]|].
      inversion Hnd as [|? ? Hni Hnd']; subst.
      assert (Hl' : forall k, In k l -> k < n) by (intros k Hk; apply Hl; right; exact Hk).
      assert (Hk0 : k0 < n) by (apply Hl; left; reflexivity).
      destruct (IH (step B k0) Hnd' Hl') as [H1 H2]. split.
      - intros r' Hno. rewrite H1 by (intros k Hk; apply Hno; right; exact Hk).
        unfold step. destruct (P k0 =? k0); [reflexivity|].
        destruct (Nat.eqb_spec r' (P k0)); [exfalso; apply (Hno k0); [left; reflexivity | congruence] | reflexivity].
      - intros k [<-|Hin].
        + rewrite H1.
          * unfold step. destruct (Nat.eqb_spec (P k0) k0) as [E|E]; [rewrite E; reflexivity|]. rewrite Nat.eqb_refl. reflexivity.
          * intros k Hk E. apply Hinj in E; [subst; contradiction | apply Hl'; exact Hk | exact Hk0].
        + rewrite H2 by exact Hin. destruct (Nat.eqb_spec (P k) k) as [E|E]; [|reflexivity].
          unfold step. destruct (Nat.eqb_spec (P k0) k0) as [E0|E0]; [reflexivity|].
          destruct (Nat.eqb_spec k (P k0)) as [E1|E1]; [|reflexivity].
          (* P k = k = P k0 with k <> k0: contradicts injectivity *)
          exfalso. assert (k = k0) by (apply Hinj; [apply Hl'; exact Hin | exact Hk0 | congruence]). subst. contradiction. }
    destruct (H (seq 0 n) A (seq_NoDup n 0)) as [_ H2]; [intros k Hk; apply in_seq in Hk; lia|].
    rewrite H2 by (apply in_seq; lia). destruct (Nat.eqb_spec (P i) i) as [E|E]; reflexivity.
  Qed.

  Lemma reconstruct_colwise_spec n (A : nat -> nat -> T) P i r : bij n P -> i < n -> reconstruct_colwise n A P r (P i) = A r i.
  Proof.
    intros (Hr & Hinj & _) Hi. unfold reconstruct_colwise.
    set (step := fun (B : nat -> nat -> T) i => if P i =? i then B else fun r c => if c =? P i then A r i else B r c).
    assert (H : forall l B, NoDup l -> (forall k, In k l -> k < n) ->
              (forall c', (forall k, In k l -> P k <> c') -> fold_left step l B r c' = B r c') /\
              (forall k, In k l -> fold_left step l B r (P k) = if P k =? k then B r k else A r k)).
    { induction l as [|k0 l IH]; intros B Hnd Hl; simpl; [split; [reflexivity | intros k []]|].
      inversion Hnd as [|? ? Hni Hnd']; subst.
      assert (Hl' : forall k, In k l -> k < n) by (intros k Hk; apply Hl; right; exact Hk).
      assert (Hk0 : k0 < n) by (apply Hl; left; reflexivity).
      destruct (IH (step B k0) Hnd' Hl') as [H1 H2]. split.
      - intros c' Hno. rewrite H1 by (intros k Hk; apply Hno; right; exact Hk).
        unfold step. destruct (P k0 =? k0); [reflexivity|].
        destruct (Nat.eqb_spec c' (P k0)); [exfalso; apply (Hno k0); [left; reflexivity | congruence] | reflexivity].
      - intros k [<-|Hin].
        + rewrite H1.
          * unfold step. destruct (Nat.eqb_spec (P k0) k0) as [E|E]; [rewrite E; reflexivity|]. rewrite Nat.eqb_refl. reflexivity.
          * intros k Hk E. apply Hinj in E; [subst; contradiction | apply Hl'; exact Hk | exact Hk0].
        + rewrite H2 by exact Hin. destruct (Nat.eqb_spec (P k) k) as [E|E]; [|reflexivity].
          unfold step. destruct (Nat.eqb_spec (P k0) k0) as [E0|E0]; [reflexivity|].
          destruct (Nat.eqb_spec k (P k0)) as [E1|E1]; [|reflexivity].
          exfalso. assert (k = k0) by (apply Hinj; [apply Hl'; exact Hin | exact Hk0 | congruence]). subst. contradiction. }
    destruct (H (seq 0 n) A (seq_NoDup n 0)) as [_ H2]; [intros k Hk; apply in_seq in Hk; lia|].
    rewrite H2 by (apply in_seq; lia). destruct (Nat.eqb_spec (P i) i) as [E|E]; reflexivity.
  Qed.

  (** C11: reconstruct undoes apply_pivot; reconstruct(L,U,P) = A whenever L*U = P*A *)
  Theorem reconstruct_apply_pivot n (A : nat -> nat -> T) P r c : bij n P -> r < n ->
    reconstruct n (apply_pivot n A P) P r c = A r c.
  Proof.
    intros HP Hr. destruct HP as (Hrng & Hinj & Hsur). destruct (Hsur r Hr) as (i & Hi & <-).
    rewrite reconstruct_spec by (repeat split; assumption). rewrite apply_pivot_spec by exact Hi. reflexivity.
  Qed.
  Theorem plu_reconstruct n (A LU : nat -> nat -> T) P : bij n P ->
    (forall i c, i < n -> LU i c = A (P i) c) -> forall r c, r < n -> reconstruct n LU P r c = A r c.
  Proof.
    intros HP HLU r c Hr. destruct HP as (Hrng & Hinj & Hsur). destruct (Hsur r Hr) as (i & Hi & <-).
    rewrite reconstruct_spec by (repeat split; assumption). apply HLU; exact Hi.
  Qed.

  (** the matrix encoding: the column of the 1 in row i is perm(i) *)
  Lemma find_one_perm_matrix (one zero : T) (eqb1 : T -> bool) n P i :
    eqb1 one = true -> eqb1 zero = false -> P i < n -> find_one eqb1 n (perm_matrix one zero P i) = P i.
  Proof.
    intros H1 H0 Hp. unfold find_one, perm_matrix.
    assert (H : forall k lo, lo <= P i < lo + k ->
              fold_right (fun c acc => if eqb1 (if c =? P i then one else zero) then c else acc) n (seq lo k) = P i).
    { induction k as [|k IH]; intros lo Hlo; [lia|]. simpl.
      destruct (Nat.eqb_spec lo (P i)) as [E|E]; [rewrite H1; exact E|]. rewrite H0. apply IH. lia. }
    apply H. lia.
  Qed.
End PivotProofs.

(** C10/C12 (SimpleInvPiv): X inverts P*A  ==>  reconstruct_colwise(X,P) inverts A *)
Section ColwiseInverse.
  Variable S : Scalar.
  Definition mmf (n : nat) (A B : nat -> nat -> S) (i j : nat) : S := sum_n (fun k => smul S (A i k) (B k j)) n.

  Theorem colwise_inverse n (A X : nat -> nat -> S) P : bij n P ->
    (forall i j, i < n -> j < n -> mmf n (fun r c => A (P r) c) X i j = if i =? j then s1 S else s0 S) ->
    forall r q, r < n -> q < n -> mmf n A (reconstruct_colwise n X P) r q = if r =? q then s1 S else s0 S.
  Proof.
    intros HP HX r q Hr Hq. pose proof HP as (Hrng & Hinj & Hsur).
    destruct (Hsur r Hr) as (i' & Hi' & <-). destruct (Hsur q Hq) as (i & Hi & <-).
    unfold mmf in *.
    rewrite (sum_n_ext S _ (fun k => smul S (A (P i') k) (X k i))).
    - rewrite (HX i' i Hi' Hi).
      destruct (Nat.eqb_spec i' i) as [->|E]; [rewrite Nat.eqb_refl; reflexivity|].
      destruct (Nat.eqb_spec (P i') (P i)) as [E2|E2]; [apply Hinj in E2; [contradiction | exact Hi' | exact Hi] | reflexivity].
    - intros k Hk. rewrite reconstruct_colwise_spec by assumption. reflexivity.
  Qed.
End ColwiseInverse.
