(** C10 - inverse(A) times A is the identity.  Exact theorems: (1) the recursive 2x2 block (Schur complement)
    inversion of inverse_dispatcher as written is a two-sided inverse for ANY split point, given inverses of the
    leading block and of the Schur complement - so every size class above 4 reduces to smaller ones;
    (2) the LU-based inverse (get_lu_inverse over the Doolittle factors) satisfies A*X = I.
    (3) the closed forms for n <= 4 (generic element type), TRANSLATED FROM THE SOURCE on this run, are two-sided
    inverses over every field whenever the determinant is non-zero.
    The SIMD float/double closed forms, the triangular and pivoted variants are tied by correspondence only; the
    bound c*n*eps*cond is measured (PARTIAL). *)
From Coq Require Import Arith ZArith List Lia.
Import ListNotations.
From FastorV Require Import Base.Scalar Base.Field Model.Linalg Proofs.LinalgProofs Proofs.SchurProofs.

(** blocks form a (non-commutative) ring-like algebra R; [ai] inverts the leading block a, [bb] inverts the
    Schur complement d - c*ai*b; aa, ab, ba are computed exactly as in the code *)
Theorem C10_block_inversion :
  forall (R : Type) (add mul : R -> R -> R) (neg : R -> R) (zero one : R),
    (forall x y, add x y = add y x) -> (forall x y z, add x (add y z) = add (add x y) z) ->
    (forall x, add zero x = x) -> (forall x, add x (neg x) = zero) ->
    (forall x y z, mul x (mul y z) = mul (mul x y) z) -> (forall x, mul one x = x) -> (forall x, mul x one = x) ->
    (forall x y z, mul x (add y z) = add (mul x y) (mul x z)) -> (forall x y z, mul (add x y) z = add (mul x z) (mul y z)) ->
  forall a b c d ai bb : R,
    mul ai a = one -> mul a ai = one ->
    mul bb (add d (neg (mul (mul c ai) b))) = one -> mul (add d (neg (mul (mul c ai) b))) bb = one ->
    let aa := aa R add mul b c ai bb in let ab := ab R mul neg b ai bb in let ba := ba R mul neg c ai bb in
    (add (mul a aa) (mul b ba) = one /\ add (mul a ab) (mul b bb) = zero /\ add (mul c aa) (mul d ba) = zero /\ add (mul c ab) (mul d bb) = one) /\
    (add (mul aa a) (mul ab c) = one /\ add (mul aa b) (mul ab d) = zero /\ add (mul ba a) (mul bb c) = zero /\ add (mul ba b) (mul bb d) = one).
Proof.
  intros R add mul neg zero one addC addA add0 addN mulA mul1l mul1r distL distR a b c d ai bb Hl Hr Sl Sr. split.
  - eapply schur_right_inverse; eassumption.
  - eapply schur_left_inverse; eassumption.
Qed.
Print Assumptions C10_block_inversion.

Theorem C10_lu_inverse :
  forall (S : Scalar), FieldLaws S -> forall n (A : mat S),
    (forall j, j < n -> lu_U n A j j <> s0 S) ->
    forall i j, i < n -> j < n -> mmul n A (lu_inverse n A) i j = if i =? j then s1 S else s0 S.
Proof. exact lu_inverse_correct. Qed.
Print Assumptions C10_lu_inverse.

Example C10_runs :
  let A : mat ZS := fun i j => nth j (nth i [[1; 2; 0]; [1; 3; 1]; [0; 1; 2]]%Z nil) 0%Z in
  map (fun i => map (mmul 3 A (lu_inverse 3 A) i) [0; 1; 2]) [0; 1; 2] = [[1; 0; 0]; [0; 1; 0]; [0; 0; 1]]%Z.
Proof. vm_compute. reflexivity. Qed.

(** * n <= 4: the straight-line kernels of backend/inverse.h as translated by lib/cxx2v.py on this run
    (Gen/GeneratedLinalg.v).  [mm n A B i j] = sum_k A(i,k) B(k,j), [delta i j x] = x on the diagonal, 0 off it. *)
From FastorV Require Import Gen.GeneratedLinalg Proofs.ClosedForms.
Theorem C10_closed_form_inverse :
  forall (S : Scalar), FieldLaws S -> forall (A : nat -> S),
    (gen_det2 S A <> s0 S -> forall i j, i < 2 -> j < 2 ->
       mm S 2 A (gen_inverse2 S A) i j = delta S i j (s1 S) /\ mm S 2 (gen_inverse2 S A) A i j = delta S i j (s1 S)) /\
    (gen_det3 S A <> s0 S -> forall i j, i < 3 -> j < 3 ->
       mm S 3 A (gen_inverse3 S A) i j = delta S i j (s1 S) /\ mm S 3 (gen_inverse3 S A) A i j = delta S i j (s1 S)) /\
    (gen_det4 S A <> s0 S -> forall i j, i < 4 -> j < 4 ->
       mm S 4 A (gen_inverse4 S A) i j = delta S i j (s1 S) /\ mm S 4 (gen_inverse4 S A) A i j = delta S i j (s1 S)).
Proof.
  intros S F A. split; [|split]; intros Hd i j Hi Hj.
  - exact (conj (inv2_right S F A i j Hd Hi Hj) (inv2_left S F A i j Hd Hi Hj)).
  - exact (conj (inv3_right S F A i j Hd Hi Hj) (inv3_left S F A i j Hd Hi Hj)).
  - exact (conj (inv4_right S F A i j Hd Hi Hj) (inv4_left S F A i j Hd Hi Hj)).
Qed.
Print Assumptions C10_closed_form_inverse.

(** the translated adjugate and cofactor kernels (used by adj(), cof() and the lazy operators of C09):
    A adj(A) = adj(A) A = det(A) I over every commutative ring; cof(A) = adj(A)^T *)
Theorem C10_closed_form_adjugate :
  forall (S : Scalar), RingLaws S -> forall (A : nat -> S) i j,
    (i < 2 -> j < 2 -> mm S 2 A (gen_adjoint2 S A) i j = delta S i j (gen_det2 S A) /\ mm S 2 (gen_adjoint2 S A) A i j = delta S i j (gen_det2 S A)
                       /\ gen_cofactor2 S A (i * 2 + j) = gen_adjoint2 S A (j * 2 + i)) /\
    (i < 3 -> j < 3 -> mm S 3 A (gen_adjoint3 S A) i j = delta S i j (gen_det3 S A) /\ mm S 3 (gen_adjoint3 S A) A i j = delta S i j (gen_det3 S A)
                       /\ gen_cofactor3 S A (i * 3 + j) = gen_adjoint3 S A (j * 3 + i)) /\
    (i < 4 -> j < 4 -> mm S 4 A (gen_adjoint4 S A) i j = delta S i j (gen_det4 S A) /\ mm S 4 (gen_adjoint4 S A) A i j = delta S i j (gen_det4 S A)
                       /\ gen_cofactor4 S A (i * 4 + j) = gen_adjoint4 S A (j * 4 + i)).
Proof.
  intros S L A i j. split; [|split]; intros Hi Hj.
  - exact (conj (adj2_right S L A i j Hi Hj) (conj (adj2_left S L A i j Hi Hj) (cof2_adj S L A i j Hi Hj))).
  - exact (conj (adj3_right S L A i j Hi Hj) (conj (adj3_left S L A i j Hi Hj) (cof3_adj S L A i j Hi Hj))).
  - exact (conj (adj4_right S L A i j Hi Hj) (conj (adj4_left S L A i j Hi Hj) (cof4_adj S L A i j Hi Hj))).
Qed.
Print Assumptions C10_closed_form_adjugate.

(** non-vacuity: the translated 3x3 kernel run on a rational matrix *)
Example C10_closed_form_runs :
  let A : nat -> QcS := fun p => nth p (map (fun z => Qcanon.Q2Qc (QArith_base.inject_Z z)) [2; 1; 0; 1; 3; 1; 0; 1; 2]%Z) (s0 QcS) in
  map (fun i => map (fun j => Qcanon.this (mm QcS 3 A (gen_inverse3 QcS A) i j)) [0; 1; 2]) [0; 1; 2]
  = map (map (fun z => Qcanon.this (Qcanon.Q2Qc (QArith_base.inject_Z z)))) [[1; 0; 0]; [0; 1; 0]; [0; 0; 1]]%Z.
Proof. vm_compute. reflexivity. Qed.

(** * Dependency on the triangular kernels.  The block / recursive strategies compute their off-diagonal blocks
    with tmatmul and tinverse (unary_lu_op.h, unary_inv_op.h); what is proved about those kernels is C17.  The tie of
    the C17 model to the source - k-range clipping and the drivers' blocking, call sites and tag passing, as translated
    by lib/cxx2v.py on this run - is therefore re-checked here as well. *)
From FastorV Require Import Model.Cfg Model.TMatmul Gen.Generated Proofs.GenEq.
Theorem C10_depends_on_tmatmul_source_tie :
  (forall tl tr K R C i j, gen_find_kfirst tl tr i j = find_kfirst tl tr i j /\ gen_find_klast tl tr K R C i j = find_klast tl tr K R C i j) /\
  (forall c W M K N,
     gen_tmbase_calls (outer_block c) (inner_block c) W M K N = model_tm_calls c W M N false /\
     gen_tmbase_masked_calls (outer_block c) (inner_block c) W M K N = model_tm_calls c W M N true /\
     gen_tmbase_loops (outer_block c) (inner_block c) W M K N = model_loops c W M N false /\
     gen_tmbase_masked_loops (outer_block c) (inner_block c) W M K N = model_loops c W M N true).
Proof.
  split.
  - intros. exact (conj (gen_find_kfirst_eq tl tr i j) (gen_find_klast_eq tl tr K R C i j)).
  - intros. exact (conj (gen_tmbase_calls_eq c W M K N) (conj (gen_tmbase_masked_calls_eq c W M K N)
      (conj (gen_tmbase_loops_eq c W M K N) (gen_tmbase_masked_loops_eq c W M K N)))).
Qed.

(** * Triangular inversion (tinverse; also used by the block LU strategies): the recursive block formulas of
    ut_inverse_dispatcher / lut_inverse_dispatcher as written are two-sided inverses in any block algebra, for any
    split point; and in every recursive size class of the three dispatchers, as translated from unary_inv_op.h on
    this run, the split point N satisfies 0 < N < M (both blocks non-empty and strictly smaller), the classes tiling
    (4, 256] without gaps. *)
From FastorV Require Import Proofs.TriBlockProofs.
Theorem C10_triangular_block_inversion :
  forall (R : Type) (add mul : R -> R -> R) (neg : R -> R) (zero one : R),
    (forall x y, add x y = add y x) -> (forall x y z, add x (add y z) = add (add x y) z) ->
    (forall x, add zero x = x) -> (forall x, add x (neg x) = zero) ->
    (forall x y z, mul x (mul y z) = mul (mul x y) z) -> (forall x, mul one x = x) -> (forall x, mul x one = x) ->
    (forall x y z, mul x (add y z) = add (mul x y) (mul x z)) -> (forall x y z, mul (add x y) z = add (mul x z) (mul y z)) ->
  forall a b c d ia id : R,
    mul ia a = one -> mul a ia = one -> mul id d = one -> mul d id = one ->
    let ub := neg (mul ia (mul b id)) in let lc := neg (mul id (mul c ia)) in
    (* upper: [a b; 0 d] * [ia ub; 0 id] = I = [ia ub; 0 id] * [a b; 0 d] *)
    (add (mul a ia) (mul b zero) = one /\ add (mul a ub) (mul b id) = zero /\ add (mul zero ia) (mul d zero) = zero /\ add (mul zero ub) (mul d id) = one) /\
    (add (mul ia a) (mul ub zero) = one /\ add (mul ia b) (mul ub d) = zero /\ add (mul zero a) (mul id zero) = zero /\ add (mul zero b) (mul id d) = one) /\
    (* lower: [a 0; c d] * [ia 0; lc id] = I = [ia 0; lc id] * [a 0; c d] *)
    (add (mul a ia) (mul zero lc) = one /\ add (mul a zero) (mul zero id) = zero /\ add (mul c ia) (mul d lc) = zero /\ add (mul c zero) (mul d id) = one) /\
    (add (mul ia a) (mul zero c) = one /\ add (mul ia zero) (mul zero d) = zero /\ add (mul lc a) (mul id c) = zero /\ add (mul lc zero) (mul id d) = one).
Proof.
  intros R add mul neg zero one addC addA add0 addN mulA mul1l mul1r distL distR a b c d ia id Hal Har Hdl Hdr.
  split; [|split; [|split]].
  - eapply ut_right_inverse; eassumption.
  - eapply ut_left_inverse; eassumption.
  - eapply lt_right_inverse; eassumption.
  - eapply lt_left_inverse; eassumption.
Qed.
Print Assumptions C10_triangular_block_inversion.

Theorem C10_source_split_points :
  forall M,
    Forall (fun '(disp, lo, hi, n) => lo < M <= hi -> 0 < n < M) (gen_inverse_splits M) /\
    map (fun '(disp, lo, hi, n) => (disp, lo, hi)) (gen_inverse_splits M) =
    flat_map (fun disp => [(disp, 4, 8); (disp, 8, 16); (disp, 16, 32); (disp, 32, 64); (disp, 64, 128); (disp, 128, 256)]) [1; 2; 0].
Proof. exact gen_inverse_splits_ok. Qed.
