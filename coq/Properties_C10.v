(** C10 - inverse(A) times A is the identity.  Exact theorems: (1) the recursive 2x2 block (Schur complement)
    inversion of inverse_dispatcher as written is a two-sided inverse for ANY split point, given inverses of the
    leading block and of the Schur complement - so every size class above 4 reduces to smaller ones;
    (2) the LU-based inverse (get_lu_inverse over the Doolittle factors) satisfies A*X = I.
    The closed forms for n <= 4, the triangular and pivoted variants are tied by correspondence only; the
    bound c*n*eps*cond is measured (PARTIAL). *)
From Coq Require Import Arith ZArith List Lia.
Import ListNotations.
From FastorV Require Import Base.Scalar Base.Field Model.Linalg Proofs.LinalgProofs Proofs.SchurProofs.

(** blocks form a (non-commutative) ring-like algebra R; [ai] inverts the leading block a, [bb] inverts the
    Schur complement d - c*ai*b; aa, ab, ba are computed exactly as in the code *)
Theorem C10_block_inversion :
  forall (R : Type) (add mul : R -> R -> R) (neg : R -> R) (zero one : R),
    (forall x y, add x y = add y x) -> (forall x y z, add x (add y z) = add (add x y) z) ->
    (forall x, add zero x = x) -> (forall x, add x (neg x) = zero) ->
    (forall x y z, mul x (mul y z) = mul (mul x y) z) -> (forall x, mul one x = x) -> (forall x, mul x one = x) ->
    (forall x y z, mul x (add y z) = add (mul x y) (mul x z)) -> (forall x y z, mul (add x y) z = add (mul x z) (mul y z)) ->
  forall a b c d ai bb : R,
    mul ai a = one -> mul a ai = one ->
    mul bb (add d (neg (mul (mul c ai) b))) = one -> mul (add d (neg (mul (mul c ai) b))) bb = one ->
    let aa := aa R add mul b c ai bb in let ab := ab R mul neg b ai bb in let ba := ba R mul neg c ai bb in
    (add (mul a aa) (mul b ba) = one /\ add (mul a ab) (mul b bb) = zero /\ add (mul c aa) (mul d ba) = zero /\ add (mul c ab) (mul d bb) = one) /\
    (add (mul aa a) (mul ab c) = one /\ add (mul aa b) (mul ab d) = zero /\ add (mul ba a) (mul bb c) = zero /\ add (mul ba b) (mul bb d) = one).
Proof.
  intros R add mul neg zero one addC addA add0 addN mulA mul1l mul1r distL distR a b c d ai bb Hl Hr Sl Sr. split.
  - eapply schur_right_inverse; eassumption.
  - eapply schur_left_inverse; eassumption.
Qed.
Print Assumptions C10_block_inversion.

Theorem C10_lu_inverse :
  forall (S : Scalar), FieldLaws S -> forall n (A : mat S),
    (forall j, j < n -> lu_U n A j j <> s0 S) ->
    forall i j, i < n -> j < n -> mmul n A (lu_inverse n A) i j = if i =? j then s1 S else s0 S.
Proof. exact lu_inverse_correct. Qed.
Print Assumptions C10_lu_inverse.

Example C10_runs :
  let A : mat ZS := fun i j => nth j (nth i [[1; 2; 0]; [1; 3; 1]; [0; 1; 2]]%Z nil) 0%Z in
  map (fun i => map (mmul 3 A (lu_inverse 3 A) i) [0; 1; 2]) [0; 1; 2] = [[1; 0; 0]; [0; 1; 0]; [0; 0; 1]]%Z.
Proof. vm_compute. reflexivity. Qed.
